#!/usr/bin/env python3
"""writes /verif/seeded/README.md: one row per confirmed seeded change (from meta.json files)"""
import json
from pathlib import Path
V = Path(__file__).resolve().parent.parent
rows = []
for d in sorted((V / 'seeded').iterdir()):
    m = d / 'meta.json'
    if not m.exists():
        continue
    j = json.loads(m.read_text())
    notes = (d / 'notes.md').read_text().strip().splitlines() if (d / 'notes.md').exists() else ['']
    first = next((l for l in notes if l.strip() and not l.startswith('#')), notes[0])[:230].replace('|', '/')
    title = notes[0].lstrip('# ').strip()[:110].replace('|', '/')
    for p, c in j['checks'].items():
        rows.append(f"| {j['id']} | {p} | {title} | {c['verdict']} ({c['tier']}, {c['wall_s']} s) | {c['first_report'][:170].replace('|', '/')} |")
out = ['# Seeded changes (from independent sub-agents; confirmed: suite green, demo fails with / passes without the change)', '',
       '| id | property | change | check verdict | first report |', '|---|---|---|---|---|'] + rows
(V / 'seeded' / 'README.md').write_text('\n'.join(out) + '\n')
print(len(rows), 'rows')
