#!/usr/bin/env python3
"""Regenerates /verif/MANIFEST.json from the table below (kept in one place so it is always valid)."""
import json
from pathlib import Path

VERIF = Path(__file__).resolve().parent.parent

# id -> (implemented, category, technique, level text, level note, design ref)
P = {
    'C15': (True, 'exploration',
            'controlled scheduler (sys.monitoring LINE gates + real flock taken non-blockingly) over the real cache code; offline history checker with unique values',
            'Two callers: ALL gate-level schedules of every pair from {get, get_or_compute, forced get_or_compute} x {entry present, absent} x {same, separate cache object} are '
            'enumerated by DFS (24 pairs, exhaustive per pair reported in evidence); three callers, all-lines gating and process-level callers: random and PCT-style schedules. The recorded history '
            '(call/return steps, computer invocations, lock events, truncate/write steps, results) is checked offline: returned values are complete results of one computation, '
            'no call raises, quiescent file is a complete entry, no needless recompute / NO_VALUE unless a write that began after the call\'s first step overlaps it.',
            'Callers are threads of one process and, in a second family, forked OS processes driven through pipes (same gates); interleavings inside a single write() are not split; JsonCache in quick, all three file caches in thorough.',
            'DESIGN.md §3 C15'),
    'C05': (True, 'fault_enumeration',
            'source-free failpoints in an audit hook: crash before EVERY mutating file operation of a recorded execution, torn prefixes of every written file, raise points; post-fault oracle in a fresh process',
            'For each storable data class (JSON dict/list/scalars, numpy, pandas, generator, lazy generator, list of arrays, DirData, ContinuesData, legitimately empty results), for first '
            'computation and forced recomputation over an existing result: the audited mutating file-system events of the recorded execution are enumerated completely and the process is killed '
            'before each; each file opened for writing is left with prefixes {0,1,n/2,n-1} of its content at the path the implementation itself opened; crash right after the publishing rename; '
            'run/generator/type-check/serialisation raise; the audit hook\'s completeness is cross-checked against strace on sampled sessions. A fresh process then checks: has_data => value loads, equals the reference, no run; else exactly one recompute; second request and a downstream task work; '
            '_error / _tmp work-directory rules for DirData / ContinuesData.',
            'Crash model = process death between audited operations + torn sequential writes (no power-loss reordering); H5Data/FigureData not exercised; values are the lab\'s small provenance values.',
            'DESIGN.md §3 C05'),
    'C19': (True, 'exploration',
            'helper value vs real-chain value vs value recomputed from the supplied inputs; invocation log and file monitor for mocked tasks',
            'For tasks of generated pipelines the helpers (create_test_task / TestChain) get the task class, mock values keyed by class or name (real upstream values, or '
            'arbitrary ones incl. None, falsy, nested, callables, classes; a mocked class may also be listed among the real tasks) and parameter values (by name_in_config, defaults omitted or spelled, parameter objects as instances '
            'or definitions, ChainObject parameter objects); the helper\'s value digest must equal the real chain\'s and the digest recomputed from the supplied values; only the '
            'tested task may run (once); no file outside its directory; a missing required input mock or parameter must fail at helper construction.',
            'Fresh base dir per helper; no global_vars (helpers have no such argument).',
            'DESIGN.md §3 C19'),
    'C20': (True, 'exploration',
            'multi-process migration histories: name-mode chain, dry/real/repeated migration, parameter-mode chain on the target with the source moved away; run log, has_data, value and tree-hash monitors',
            'Generated file-based pipelines (uses/namespaces, multi-config files with and without explicit part, contexts, global_vars incl. placeholder `uses` paths, dotted and explicitly given config names, '
            'all file/directory data classes incl. empty results) computed in name mode for random subsets; dry migration writes nothing; after migration has_data(parameter mode on target) == '
            'has_data(name mode) per computation, migrated values load without any run and equal the reference, the rest computes normally; source tree hashes unchanged; second migration is a no-op; '
            'the target still works after the source directory is moved away.',
            'No root namespace (the function takes none); one config file is not mounted twice in name mode.',
            'DESIGN.md §3 C20'),
    'C02': (True, 'exploration',
            'metamorphic monitor: locations of corresponding tasks in a configuration and in a computation-preserving rewriting of it (validated on the reference model), across interpreters',
            'Pairs (S, S\') where S\' is S after 1-4 composed rewritings (rename/move/format of config files, mounting under namespace paths by root namespace or wrapper, '
            'permutation of tasks/uses/keys/mapping keys at every depth, module variants with permuted/ignored/default-valued parameters and absent optional inputs, moving '
            'values into the context, other global_vars values), half of the pairs built in freshly spawned interpreters with different PYTHONHASHSEED; data_path / '
            'name_for_persistence of corresponding tasks must be equal and descriptor -> location must be a function. Two open known findings are matched by a strict '
            'mechanism classifier (implementation must follow the frozen 1.4.0 scheme exactly and differ only by set order / in-object mapping order).',
            'Parameter mode; equality is Python == on JSON-like values.',
            'DESIGN.md §3 C02'),
    'C03': (True, 'exploration',
            'adversarial value-pair monitor on real one-task chains + graph-level mutation monitor (moved set == {U} U descendants) + location->descriptor injectivity',
            'About 20 000 pairs of unequal JSON-like values / parameter objects (structural neighbours, separator and quote strings, long values differing late, subclassed '
            'parameter objects next to instances of their parent class) per quick run, '
            'each given to a real task: keys must differ; generated pipelines where one parameter (any depth, object arguments) is changed or inputs are rewired: exactly the '
            'task and its descendants must move. One open known finding (unescaped quotes) matched by mechanism: frozen texts identical and a quote inside a string.',
            'Pairs Python considers equal (1/1.0/True) and NaN are excluded as in the statement.',
            'DESIGN.md §3 C03'),
    'C13': (True, 'exploration',
            'member chains vs reference evaluation of each config, object-identity monitor (shared iff same computation descriptor), run log + audit-hook reads across members',
            'MultiChains over 2-5 configs of one generated pipeline (values changed at any depth, other contexts/parts/root namespaces, swapped twin mounts) are built in a real '
            'process; every member is compared with the reference of its own config (names, keys, locations, parameters, input bindings, values); tasks are one object '
            'iff their reference descriptors are equal; a value obtained through one member is served to others without run and without reading the store; '
            'MultiChain.force marks exactly the closure in every member.',
            'Distinct config names (MultiChain requirement); recompute multiplicity of shared tasks under MultiChain.force(recompute=True) not judged.',
            'DESIGN.md §3 C13'),
    'C18': (True, 'exploration',
            'uid-tagged run-info records and log messages of every generated run checked against the latest completed run per location (offline check over recorded histories)',
            'Histories mixing successful runs, failing runs (before/after logging, failing generator bodies, failing upstream during argument evaluation), retries on the '
            'same object and in new chains of the same process, forced recomputations and same-named tasks of several chains; run_info (task identity, frozen repr of '
            'every parameter used, input keys, declaring config/namespace, records) and log (messages of the latest run only, once, in order) are compared with what '
            'the invocation log says the latest completed run of that location did.',
            'Library-own log lines, timestamps, user and extra keys are ignored; what the log holds after a failed, not yet retried attempt is not specified and not judged.',
            'DESIGN.md §3 C18'),
    'C01': (True, 'exploration',
            'provenance-carrying values checked against a reference evaluation of the configuration, over multi-process histories on one data directory',
            'Histories of 1-3 real OS processes (some freshly spawned with another hash seed) x 2-3 chains each over ONE data directory, built from families of '
            'related configurations (contexts, root namespace, parts, copied files with one value changed, one file mounted under two namespaces with swapped '
            'per-namespace values); arbitrary request orders, forcing, injected run/generator failures and retries. Each generated run returns a value that is a '
            'hash of its task, persisted parameters and the digests of the inputs it read, so stale/foreign results cannot coincide with the reference value.',
            'Parameter mode; determinism of generated tasks; results deliberately deleted through another chain while a handle is held in memory are not judged.',
            'DESIGN.md §3 C01'),
    'C04': (True, 'exploration',
            'invocation log of the real run methods checked step by step against a store/memory model (multiset of runs per step; at-most-once per location)',
            'Histories without forcing/failure/deletion over one data directory (up to 4 processes x 4 chains), requests on arbitrary tasks, inspection calls '
            'interleaved everywhere; after every step the set of executed runs (task, key) must equal the model prediction (in memory -> none, stored -> load '
            'without touching upstream, else run + needed inputs); has_data == stored flag; build/inspect steps run nothing; every location computed at most once per history.',
            'Sequential histories; identity classes of task objects are taken from observation, not assumed.',
            'DESIGN.md §3 C04'),
    'C07': (True, 'exploration',
            'forced-flag / run-log / audit-hook file-event monitors checked against descendant closures and the store/memory/forced model',
            'Histories dominated by chain.force (names/objects/scalar, all recompute x delete_data combinations, namesakes under several namespaces) and Task.force on '
            'full/partial/empty stores: after each force is_forced of every task == flags before U closure; removed result files == forced tasks that had data; '
            'recompute executes each forced task exactly once; forced tasks run once on the next request and write their location again; unforced stored tasks load.',
            'Recomputation count of tasks shared between MultiChain members is out of scope here (C13).',
            'DESIGN.md §3 C07'),
    'C08': (True, 'exploration',
            'reference graph model vs real chains built in separate processes (names, input bindings by object identity, edges, closures, construction errors)',
            'Generated pipelines with every documented input form over namespace trees (incl. the same file mounted twice, multi-config #part references, '
            'excluded/abstract classes, confusable names) are built by the real Chain in a worker process; task set, per-task input bindings, graph edges and '
            'required/dependent closures of every task are compared with an independent reference model; 30% of cases carry one injected dangling input or '
            '1-/2-/3-cycle and must fail at construction (both modes).',
            'Reference semantics = DESIGN.md Appendix A; don\'t-care zones listed in the evidence assumptions; pattern inputs `~re` / `~~re` are generated with regexes that name the wanted tasks explicitly.',
            'DESIGN.md §3 C08'),
    'C09': (True, 'exploration',
            'reference precedence model vs Task.params of real chains + aliasing monitor on caller-owned contexts',
            'Generated config trees x contexts of every kind (dict, file, Context, lists, for_namespaces, nested `uses ... as ns` two levels deep) are built by the '
            'real code; every parameter value of every task is compared (typed) with the reference precedence; injected missing/mistyped values and same-namespace '
            'task conflicts must fail at construction; one context object handed to two Configs must stay deep-equal and share no mutable values.',
            'Values of persistence-excluded parameters are not compared on tasks that coincide with another task of the chain (shared object by design).',
            'DESIGN.md §3 C09'),
    'C12': (True, 'exploration',
            'frozen independent implementation of the 1.4.0 layout/key scheme + golden vectors vs name_for_persistence/data_path/files on disk',
            'For every task of generated chains (all group forms, namespaces, data classes, adversarial string values, parameter objects, Path parameters; '
            'parameter and name mode) key and location are compared with refscheme.py; all tasks are then computed and every file under the data directory must be '
            'at a frozen location; 600 committed golden vectors pin refscheme itself.',
            'Assumes pinned tree == release 1.4.0 for layout and key derivation (no 1.4.0 artefact offline).',
            'DESIGN.md §3 C12'),
    'C06': (True, 'exploration',
            'typed deep-equality monitor across run / computing chain / fresh chain / fresh interpreter + stored-file hash monitor',
            'One real task per generated value of every storable data class in the statement; the value run returned, the value the computing chain '
            'returned, the value a fresh chain loads and the value a fresh interpreter loads are compared in typed canonical form (bool!=int, float bits, '
            'dtype/shape/bytes, index/column types, order); file hashes before/after loading; generated sequences up to 4097 items; for a quarter of the values of half of the cases a '
            'failed earlier attempt of the same task (a larger value whose storing fails part-way) precedes the run. ~4 800 values quick.',
            'Domain as in the statement (evidence assumptions list what is excluded); pandas/numpy equality via a canonical form written for this check.',
            'DESIGN.md §3 C06'),
    'C14': (True, 'exploration',
            'dictionary reference model with unique values checked online against real cache objects, damage operations on the real cache files',
            'Random sequences of get/get_or_compute/force/raising computers/sub-cache accesses and file damage (every truncation class, empty, garbage, '
            'well-formed-but-wrong JSON, delete, foreign-key swap) on JsonCache (both allow_nones), DataFrameCache, NumpyArrayCache, InMemoryCache and '
            'nested sub-caches; each return value and computer-call count is compared with a dictionary model; every value handed out is re-examined after later operations '
            '(it must not change behind the caller\'s back); object-dtype arrays included; final sweep over all entries.',
            'A damaged file that still loads to exactly the stored value is treated as intact; exception type of the foreign-key report is not checked.',
            'DESIGN.md §3 C14'),
    'C16': (True, 'exploration',
            'python binding model (inspect.Signature.bind + apply_defaults) vs executions/entries of generated cached methods',
            'Generated classes with cached methods over positional, defaulted and keyword-only parameters, ignored kwargs, versions, bare/called decorator; '
            'call sequences with random spellings of bindings (positional prefix, keyword order, defaults, item order of mappings inside arguments) and the three control keywords '
            '(supplied values incl. None and other falsy values) on InMemoryCache and JsonCache; oracle = dictionary keyed by '
            'the canonical binding; execution counts, returned values, arguments the method really received and entry counts per method/version.',
            'Positional-only/variadic parameters, custom key functions and shared external cache objects are out of scope.',
            'DESIGN.md §3 C16'),
    'C10': (True, 'exploration',
            'structural reference resolver (with explicit don\'t-care zone) vs the real resolver; all permutations; real Chain/InputTasks access',
            'The real _find_task_full_name, Chain[...], `in`, attribute access and task.input_tasks[...] are run on generated name sets '
            'over confusable segment alphabets (all sets of <=2 names quick / <=3 thorough over a 40-name universe, random sets up to 6 names), '
            'every shortened/partial/near-miss query, every permutation for sets <=4; outcomes compared with a structural oracle.',
            'Trusts the structural reading of "shorter form" stated in the evidence assumptions; liberal-only winners are a don\'t-care zone.',
            'DESIGN.md §3 C10'),
    'C11': (True, 'exploration',
            'reference substitution + typed structure comparison + idempotence/str-likeness/copy monitors; real Config/Chain constructions',
            'search_and_replace_placeholders is run on generated JSON-like trees (global_vars as dict, OrderedDict, instance, class attributes, inherited attributes, properties, '
            'SimpleNamespace, module, __slots__) and compared leaf by leaf with a '
            'reference substitution; non-string leaves, structure, idempotence, str behaviour, repr after copy/deepcopy of string, container and Config '
            'are monitored; real Config/Chain constructions put placeholders in `uses` paths, context values (dict and file), object-definition arguments and ready-made Config objects in `uses`.',
            'Ambiguous brace nestings and replacement values containing braces are outside the text oracle (idempotence/type still checked).',
            'DESIGN.md §3 C11'),
    'C17': (True, 'exploration',
            'controller-dictated worker completion orders (bounded-exhaustive per small config) + result/call-count oracle',
            'Runs the real parallel_map (both implementations) and chunked under a controller that blocks every call of f and '
            'releases calls in a dictated order; all feasible completion orders are enumerated for n<=5 (6 thorough), random/'
            'adversarial orders for larger inputs; outputs are tuples, exception objects (returned, not raised), None, falsy values or unorderable dicts; oracle: result == sequential map, f once per element, exception propagates, '
            'sort=False is a per-chunk permutation. Held on the executions listed in evidence, not a proof.',
            'Trusts the controller to realise the dictated order (realised order is measured from f); main-thread event loop.',
            'DESIGN.md §3 C17'),
}

# coverage added after the table above was written (appended to the level text of the property)
ADDED = {
    'C02': ' A further rewriting writes equal sub-values once and references them by a YAML alias (one shared object after loading).',
    'C01': ' Histories also release memory between requests (task.reset_data()), retire chains whose parameter values were modified in place, and vary floats far behind the decimal point.',
    'C03': ' Two processes with different HOME computing one configuration must receive the same values (same location). Sibling parameter-object classes inheriting one constructor. Pairs of parameter objects whose private-only constructor argument takes different falsy values are included.',
    'C04': ' Histories also release memory between requests (task.reset_data()): a stored result is then loaded, not recomputed.',
    'C05': ' Unpicklable figures; pending work of an interrupted forced recomputation survives a plain load. Interruptions (KeyboardInterrupt inside run) are among the fault kinds; a resumable run that returns without finishing shows nothing. The enumeration is repeated with TMPDIR on another file system than the data directory (when one exists), and results holding non-ASCII text are computed by '
           'interpreters started with the C locale (storing either fails with nothing visible, or a later chain of that locale loads the value).',
    'C06': ' Collection-like results are forced between empty and non-empty. In name mode, sibling configs whose names differ by a suffix (model / model_old / model_v2 / model.old) store other values of the same tasks before and are '
           're-read afterwards; generator bodies complete items after yielding them.',
    'C07': ' Histories contain reset_data() steps on forced tasks (the forced mark must survive them).',
    'C08': ' A MultiChain family asks closures by task object in every member. Task classes derived from other task classes (base class excluded, derived one kept) and inputs by class whose class is not in the chain while a namesake in a group exists are generated.',
    'C09': ' Config and context values include floats that JSON spells with an exponent and no decimal point; injected type errors include values equal to the default (1.0 for an int default 1).',
    'C10': ' Optional short-form inputs bind to the task, ambiguous names are refused by force. Chains are built twice from the same config objects; a config may exclude a class that only other configs declare. Run arguments of dependants are resolved by the same rule (unique / less-nested -> that task\'s value, ambiguous -> the request fails); task names may start with an underscore.',
    'C11': ' Mapping-style global_vars may define names that are not identifiers; strings in reserved config fields (human_readable_data_name) are checked too.',
    'C12': ' Path-typed parameters set in configs (with and without placeholders) are part of the generated pipelines; a value-level family compares real one-task chains with the frozen scheme over mappings keyed by numbers, and factory-made classes with equal qualified names.',
    'C13': ' One family uses the parts of ONE multi-config file as members, in parameter mode and in name mode; closures are asked by task object in every member; force also by short names; some task classes define __len__. MultiChain.force also gets a single task as a bare name.',
    'C14': ' Computers whose parameters all have defaults; two cache objects over one directory. A fifth of the sequences run with warnings turned into errors; pairs of long equal-length keys with a long common prefix. A twelfth of the cases replays its sequences in a child interpreter started with the C locale; keys include hex digests (and their pieces) of other keys in use. Damage also includes an entry reduced to its key: well-formed JSON recording the right key without a value member.',
    'C15': ' All pairs are also enumerated over a damaged initial entry; forced writers of arrays over 16 MiB are interleaved statement by statement with readers. A further family runs the callers as independently exec()ed interpreters with different PYTHONHASHSEEDs (gates over inherited pipes); try-lock calls of the cache code '
           'get real try-lock semantics under the scheduler.',
    'C16': ' Parameters whose names extend an ignored name; a pass-through decorator under @cached. A second object with its own cache (a third of the classes compare all instances equal); versions 0, empty and with path separators. A derived class may override the cached methods under another version while the base versions stay reachable through super() on the same object.',
    'C17': ' Callables without __name__, list subclasses with their own iteration, one slow element per chunk (0.8 s wall clock), thousands of chunks. Outputs include numpy arrays, pandas objects and objects that refuse comparison / truth / hashing; inputs include iterators and map objects with an exact `total` hint.',
    'C18': ' A same-named task object is created while a task runs. A log line written from a worker thread started by run; refused records are violations; records with int keys and inf. Derived task classes, records holding numpy scalars / paths / tuples; records that cannot be read back are violations.',
    'C19': ' The parameters dict of the caller gets new values after the helper was built. A second helper of the same class with other parameter values is built before the first is evaluated; the TestChain object is dropped and the stored result read again through the task.',
    'C20': ' A composing part mounting the other parts of its file; a source directory moved to another volume and linked in. 30 % of the real migrations are run by `python -O`.',
}

NOT_YET = 'check not built yet in this session (planned in DESIGN.md §3); not claimed until it runs clean on the unchanged tree'


def main():
    props = [json.loads(l) for l in (VERIF / 'properties.jsonl').read_text().splitlines() if l.strip()]
    checks, na = [], []
    for p in props:
        pid = p['id']
        meta = P.get(pid)
        if not meta or not meta[0]:
            na.append({'property_id': pid, 'reason': NOT_YET if not meta else meta[3]})
            continue
        _, cat, tech, text, note, ref = meta
        text = text + ADDED.get(pid, '')
        checks.append({
            'property_id': pid,
            'quick_cmd': f'./check {pid} --tier quick',
            'thorough_cmd': f'./check {pid} --tier thorough',
            'evidence_file': f'/verif/evidence/{pid}.json',
            'replay_cmd_template': f'./check {pid} --replay {{path}}',
            'engine': 'tc_verif',
            'level_claimed': {'category': cat, 'text': text, 'design_ref': ref},
            'level_note': note,
            'technique': 'runtime monitoring: ' + tech,
        })
    man = {
        'version': 1,
        'setup_cmd': "/venv/bin/python -c \"import sys; sys.path.insert(0,'/repo/src'); import taskchain, numpy, pandas, yaml, orjson, filelock, networkx; print('ok', taskchain.__file__)\"",
        'hooks': {
            'guard': 'TASKCHAIN_VERIF',
            'enable': 'no source hooks in /repo: ./check exports TASKCHAIN_VERIF=1 and installs harness-side wrappers, audit hooks and '
                      'sys.monitoring callbacks around the unmodified sources of $VERIF_REPO (default /repo) at run time',
            'baseline_off_cmd': 'cd /repo && /venv/bin/python -m pytest -ra -q -p no:cacheprovider --timeout=900 --continue-on-collection-errors',
            'source_commits': [],
            'add_only': True,
        },
        'engines': [
            {'name': 'tc_verif', 'path': '/verif/tc_verif', 'serves_properties': [c['property_id'] for c in checks],
             'kind_free_text': 'Python runtime-monitoring harness: generated workloads executed on the real code in worker processes; '
                               'oracles = executable reference models, history checkers, audit-hook fault injection, controlled schedulers'},
        ],
        'checks': checks,
        'not_applicable': na,
        'notes': 'Every check: exit 0 held / exit 1 + VIOLATION line / exit 2 INCONCLUSIVE (monitor not reached; never folded into held). '
                 'VERIF_REPO selects the tree (default /repo); VERIF_SEED and VERIF_TIER honoured. known_findings.txt lists open/fixed findings.',
    }
    (VERIF / 'MANIFEST.json').write_text(json.dumps(man, indent=1) + '\n')
    print(f'{len(checks)} checks, {len(na)} not claimed')


if __name__ == '__main__':
    main()
