#!/bin/sh
# usage: tools/sweep.sh <tier> <seeds...>   -- runs every claimed check for each seed, prints one line per run
tier=$1; shift
for seed in "$@"; do
  for P in C01 C02 C03 C04 C05 C06 C07 C08 C09 C10 C11 C12 C13 C14 C15 C16 C17 C18 C19 C20; do
    out=$(./check $P --tier $tier --seed $seed --no-evidence ${SWEEP_ARGS} 2>&1)
    rc=$?
    echo "seed=$seed $P rc=$rc $(echo "$out" | grep -a -E '^(HELD|VIOLATION|INCONCLUSIVE)' | head -2 | tr '\n' ' ' | cut -c1-260)"
  done
done
