#!/usr/bin/env python3
"""Confirm a sub-agent's seeded change and file it under /verif/seeded/<id>/.

usage: seed_import.py <PROP> <src dir with patch.diff demo.py notes.md> <seed-id> [--props C01,C04] [--tier quick]

Steps (all on a scratch copy of /repo's current tree, outside /repo and /verif, removed afterwards):
  1. demo.py on the unchanged copy     -> must exit 0
  2. git apply patch.diff              -> must apply
  3. repository test-suite             -> must pass (128)
  4. demo.py on the changed copy       -> must exit 1
  5. ./check <prop> --tier quick       -> verdict recorded (CAUGHT / MISSED)
"""
import json
import os
import shutil
import subprocess
import sys
import time
from pathlib import Path

sys.path.insert(0, str(Path(__file__).resolve().parent.parent))
from tc_verif import mutants  # noqa

VERIF = Path(__file__).resolve().parent.parent


def run_demo(scratch, demo):
    env = dict(os.environ, PYTHONPATH=str(scratch / 'src'), TQDM_DISABLE='1', MPLBACKEND='Agg')
    r = subprocess.run(['/venv/bin/python', str(demo)], cwd=scratch, env=env, capture_output=True, text=True, timeout=600)
    return r.returncode, (r.stdout.strip().splitlines() or [''])[-1][:300]


def main():
    prop, src, sid = sys.argv[1], Path(sys.argv[2]), sys.argv[3]
    props = prop.split(',')
    tier = 'quick'
    if '--tier' in sys.argv:
        tier = sys.argv[sys.argv.index('--tier') + 1]
    dest = VERIF / 'seeded' / sid
    scratch = mutants.make_scratch()
    meta = {'id': sid, 'breaks_property': props[0], 'also_checked': props[1:], 'source': 'independent sub-agent given only the property text',
            'repo_head': subprocess.run(['git', '-C', '/repo', 'rev-parse', '--short', 'HEAD'], capture_output=True, text=True).stdout.strip()}
    try:
        subprocess.run(['git', 'init', '-q'], cwd=scratch, check=True)
        rc0, out0 = run_demo(scratch, src / 'demo.py')
        meta['demo_on_unchanged'] = {'exit': rc0, 'last_line': out0}
        r = subprocess.run(['git', 'apply', '--whitespace=nowarn', str((src / 'patch.diff').resolve())], cwd=scratch, capture_output=True, text=True)
        meta['patch_applies'] = r.returncode == 0
        if r.returncode:
            print('patch does not apply:', r.stderr[:500])
            print(json.dumps(meta, indent=1))
            return 1
        ok, tail = mutants.run_suite(scratch)
        meta['repo_suite_on_changed'] = {'pass': ok, 'summary': tail}
        rc1, out1 = run_demo(scratch, src / 'demo.py')
        meta['demo_on_changed'] = {'exit': rc1, 'last_line': out1}
        meta['confirmed'] = bool(rc0 == 0 and ok and rc1 == 1)
        meta['checks'] = {}
        for p in props:
            rc, viol, msg, wall = mutants.run_check(scratch, p, tier)
            meta['checks'][p] = {'tier': tier, 'verdict': 'CAUGHT' if (rc == 1 and viol) else ('inconclusive' if rc == 2 else 'MISSED'),
                                 'exit': rc, 'wall_s': round(wall, 1), 'first_report': msg}
    finally:
        os.chdir('/')
        shutil.rmtree(scratch, ignore_errors=True)
    notes = (src / 'notes.md').read_text() if (src / 'notes.md').exists() else ''
    meta['needs_to_manifest'] = notes.strip()[:1500]
    meta['what_was_run'] = ('scratch copy of /repo tree; demo.py unchanged -> exit 0; git apply patch.diff; pytest (repository suite); '
                            f'demo.py changed -> exit 1; VERIF_REPO=<scratch> ./check <prop> --tier {tier}')
    meta['date'] = time.strftime('%Y-%m-%d')
    print(json.dumps({k: v for k, v in meta.items() if k != 'needs_to_manifest'}, indent=1))
    if meta['confirmed']:
        dest.mkdir(parents=True, exist_ok=True)
        for f in ('patch.diff', 'demo.py', 'notes.md'):
            if (src / f).exists():
                shutil.copy(src / f, dest / f)
        (dest / 'meta.json').write_text(json.dumps(meta, indent=1) + '\n')
    return 0


if __name__ == '__main__':
    sys.exit(main())
