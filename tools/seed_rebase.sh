#!/bin/bash
# usage: seed_rebase.sh <seed-id>   -- re-create seeded/<id>/patch.diff against /repo's current tree when only context lines moved
set -e
id=$1
d=$(mktemp -d /tmp/rebase-XXXX)
cp -r /repo/src $d/src
cd $d && git init -q && git add -A && git -c user.email=x@x -c user.name=x commit -qm base
git apply -C1 --recount /verif/seeded/$id/patch.diff
git diff > /verif/seeded/$id/patch.diff
cd / && rm -rf $d
echo rebased $id
