#!/usr/bin/env python3
"""One-off: writes /verif/golden/keys.jsonl from generated specs, keeping only vectors on which the frozen scheme and the
pinned tree agreed (checked by building the chain). Never run by the checks."""
import json, random, sys
from pathlib import Path
sys.path.insert(0, str(Path(__file__).resolve().parent.parent)); sys.path.insert(0, '/repo/src')
from tc_verif.core import setup_worker_process
setup_worker_process()
from tc_verif.lab import spec as S
from tc_verif.lab.ref import Ref
from tc_verif.lab.harness import Lab

out = []
for seed in range(400):
    rng = random.Random(f'golden-{seed}')
    sp = S.gen_spec(rng, {'adversarial_strings': seed % 2 == 0}); root = S.gen_root(rng, sp)
    ref = Ref(sp, root)
    if ref.error is not None:
        continue
    with Lab(sp) as lab:
        r = lab.run([{'op': 'build', 'chain': 'c', 'root': root}])
    st = r['steps'][0]
    if not st['ok']:
        continue
    snap = st['snapshot']['tasks']
    for n, t in ref.tasks.items():
        if snap[n]['key'] != t['key'] or snap[n]['rel_path'] != t['rel_path']:
            print('DISAGREE', seed, n); continue
        pers = {k: (list(v) if isinstance(v, tuple) else v) for k, v in t['persisted'].items()}
        out.append({'slug': t['slug'], 'kind': t['spec']['data_kind'], 'ns': '::'.join(t['ns']) or None, 'persisted': pers,
                    'path_params': [k for k, v in t['persisted'].items() if isinstance(v, tuple)],
                    'gv_active': ref.gv is not None, 'inputs': {m: ref.tasks[m]['key'] for m in t['inputs']}, 'key': t['key'], 'rel_path': t['rel_path']})
    if len(out) > 600:
        break
Path('/verif/golden').mkdir(exist_ok=True)
Path('/verif/golden/keys.jsonl').write_text('\n'.join(json.dumps(x) for x in out) + '\n')
print(len(out), 'vectors')
