"""Comparison of worker observations with the reference model. Each discrepancy is tagged with the property it refutes."""
from __future__ import annotations

import json


def jl(x):
    return json.loads(json.dumps(x))


def compare_build(ref, obs, parameter_mode=True):
    """ref: lab.ref.Ref; obs: observation of a `build` step. -> list of {'prop', 'tag', 'what'}"""
    out = []

    def add(prop, tag, what, **facts):
        out.append({'prop': prop, 'tag': tag, 'what': what, 'facts': facts})

    if ref.error is not None:
        kind = ref.error.kind
        if kind == 'dont_care':
            return out
        if obs['ok']:
            prop = {'cycle': 'C08', 'missing_input': 'C08', 'ambiguous_input': 'C10', 'duplicate_input': 'C08', 'import': 'C08',
                    'missing_param': 'C09', 'dtype': 'C09', 'conflict': 'C09', 'config': 'C09'}.get(kind, 'C09')
            add(prop, 'error_expected', f'construction must fail ({kind}: {ref.error}) but a chain was built')
        return out
    if not obs['ok']:
        msg = f'{obs.get("exc")}: {obs.get("msg")}'
        low = msg.lower()
        prop = 'C08' if ('input task' in low or 'acyclic' in low or 'recursion' in low or 'ambiguous' in low or 'not found' in low and 'task' in low) else 'C09'
        add(prop, 'unexpected_error', f'valid configuration failed to build: {msg[:400]}')
        return out
    snap = obs['snapshot']['tasks']
    if set(snap) != set(ref.tasks):
        add('C08', 'names', f'task names differ: only in chain {sorted(set(snap) - set(ref.tasks))}, only in reference {sorted(set(ref.tasks) - set(snap))}')
        obs_slugs, ref_slugs = {d['slug'] for d in snap.values()}, {t['slug'] for t in ref.tasks.values()}
        if obs_slugs != ref_slugs:
            # <group levels>/<task name> is part of the storage layout: a task whose group-qualified name changes loses its stored results
            add('C12', 'task_dir', f'group-qualified task names (= result directories) differ from the documented derivation: only in chain '
                                   f'{sorted(obs_slugs - ref_slugs)}, only in reference {sorted(ref_slugs - obs_slugs)}')
        return out
    shared_keys = {}
    for n, t in ref.tasks.items():
        shared_keys.setdefault((t['slug'], t['key']), []).append(n)
    for n, t in ref.tasks.items():
        d = snap[n]
        # --- C12: key and location --------------------------------------------------------------------------------
        if 'key_error' in d:
            add('C12', 'key', f'{n}: name_for_persistence/data_path raised {d["key_error"]}')
        else:
            if d['key'] != t['key']:
                add('C12', 'key', f'{n}: key {d["key"]} differs from the frozen 1.4.0 scheme {t["key"]} (params {d.get("persist_repr")!r})',
                    persist_repr=d.get('persist_repr'))
            elif d['rel_path'] != t['rel_path']:
                add('C12', 'path', f'{n}: location {d["rel_path"]} differs from the documented layout {t["rel_path"]}')
        # --- C09: parameter values --------------------------------------------------------------------------------
        exp = jl(t['received'])
        shared = len(shared_keys[(t['slug'], t['key'])]) > 1
        for p in t['spec'].get('params', []):
            pn = p['name']
            if pn not in d['params']:
                add('C09', 'params', f'{n}: parameter {pn} missing on the task')
                continue
            unpersisted = p.get('ignore') or (p.get('drop_default') and pn not in t['persisted'])
            if shared and unpersisted:
                continue   # identical computations are one shared object; values that do not take part in persistence may be either's
            if d['params'][pn] != exp[pn]:
                add('C09', 'params', f'{n}: parameter {pn} = {d["params"][pn]} but the declared precedence gives {exp[pn]}',
                    instance_ns='::'.join(t['ns']), file=t['inst']['file'], unpersisted=bool(unpersisted), slugkey=[t['slug'], t['key']])
        # --- C08: inputs ------------------------------------------------------------------------------------------
        obs_ids = set()
        bad = None
        for k, v in d['inputs'].items():
            if v[0] == 'task':
                if v[1] not in snap:
                    bad = f'{n}: input `{k}` is bound to an object that is not a task of the chain ({v[1]})'
                else:
                    obs_ids.add(snap[v[1]]['id'])
        exp_ids = {snap[m]['id'] for m in t['inputs']}
        if bad:
            add('C08', 'inputs', bad)
        elif obs_ids != exp_ids:
            names_obs = sorted(v[1] for v in d['inputs'].values() if v[0] == 'task')
            add('C08', 'inputs', f'{n}: input tasks bound to {names_obs}, declared inputs resolve to {sorted(t["inputs"])}')
        exp_defaults = sorted(json.dumps(jl(__import__('tc_verif.canon', fromlist=['tcanon']).tcanon(x[1]))) for x in t['explicit'] if x[0] == 'default')
        obs_defaults = sorted(json.dumps(v[1]) for v in d['inputs'].values() if v[0] == 'default')
        if exp_defaults != obs_defaults:
            add('C08', 'inputs', f'{n}: optional absent inputs bound to {obs_defaults}, expected defaults {exp_defaults}')
    # --- C08: graph edges (by object identity) ----------------------------------------------------------------------
    if obs['snapshot'].get('edges') is not None:
        obs_e = {(snap[a]['id'], snap[b]['id']) for a, b in obs['snapshot']['edges'] if a in snap and b in snap}
        exp_e = {(snap[a]['id'], snap[b]['id']) for a, b in ref.edges()}
        if obs_e != exp_e:
            add('C08', 'edges', f'graph edges differ from the declared ones: {len(obs_e)} observed vs {len(exp_e)} declared')
    return out


def compare_closures(ref, obs_build, obs_deps):
    """required_tasks / dependent_tasks vs reference closures, on the quotient of the reference graph by the observed object
    identity classes (identical computations mounted twice are one node of the chain's graph, by design)."""
    out = []
    snap = obs_build['snapshot']['tasks']
    fullname_to_id = {d['fullname']: d['id'] for d in snap.values()}
    succ, pred = {}, {}
    for a, b in ref.edges():
        ia, ib = snap[a]['id'], snap[b]['id']
        succ.setdefault(ia, set()).add(ib)
        pred.setdefault(ib, set()).add(ia)

    def closure(start, rel):
        seen, stack = set(), list(rel.get(start, ()))
        while stack:
            x = stack.pop()
            if x not in seen:
                seen.add(x)
                stack.extend(rel.get(x, ()))
        return seen
    for n in ref.tasks:
        for what, rel in (('deps', pred), ('dependents', succ)):
            exp_ids = closure(snap[n]['id'], rel)
            got = obs_deps[what].get(n)
            if got is None:
                continue
            got_ids = {fullname_to_id.get(g) for g in got}
            if obs_deps.get(what + '_ids') is not None:
                got_ids = set(obs_deps[what + '_ids'].get(n, []))
            if got_ids != exp_ids:
                names = sorted(m for m in ref.tasks if snap[m]['id'] in exp_ids)
                out.append({'prop': 'C08', 'tag': 'closures', 'facts': {},
                            'what': f'{what} of {n}: chain says {sorted(got)}, reference closure is {names}'})
    return out
