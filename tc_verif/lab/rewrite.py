"""Computation-preserving rewritings of (spec, root): each returns (spec', root', name_map, description) or None.

name_map: task full name in the original -> full name in the rewritten configuration.
"""
from __future__ import annotations

import copy
import random

from . import spec as S
from .ref import Ref


def ident(ref):
    return {n: n for n in ref.tasks}


def _rename_file(spec, old, new):
    spec['files'][new] = spec['files'].pop(old)
    for f in spec['files'].values():
        for pd in f['parts'].values():
            for u in pd.get('uses', []):
                if u.get('file') == old:
                    u['file'] = new
    if 'fnames' in spec:
        spec['fnames'] = [new if x == old else x for x in spec['fnames']]


def rw_rename(rng, spec, root, ref):
    """rename / move every config file, switch JSON<->YAML"""
    spec, root = copy.deepcopy(spec), copy.deepcopy(root)
    for i, old in enumerate(list(spec['files'])):
        stem = rng.choice(['renamed', 'moved/deeper/cfg', 'zz', 'experiment_2024']) + str(i)
        ext = rng.choice(['json', 'yaml'])
        new = f'{rng.choice(["cfg", "other_dir", "a/b"])}/{stem}.{ext}'
        _rename_file(spec, old, new)
        if root['file'] == old:
            root['file'] = new
    return spec, root, ident(ref), 'rename/move files, switch format'


def _prefix_context(root, ns):
    for s in root.get('context') or []:
        d = s['data']
        if 'for_namespaces' in d:
            d['for_namespaces'] = {f'{ns}::{k}': v for k, v in d['for_namespaces'].items()}


def _ctx_simple(root):
    return all(s['kind'] != 'file' and not s['data'].get('uses') for s in root.get('context') or [])


def rw_wrap(rng, spec, root, ref):
    """mount the whole pipeline under a namespace (root namespace argument, or a wrapper config using it `as ns`), depth 1-3"""
    if not _ctx_simple(root):
        return None
    spec, root = copy.deepcopy(spec), copy.deepcopy(root)
    words = list(spec.get('free_ns_words') or [])
    if len(words) < 1:
        return None
    depth = rng.randint(1, min(3, len(words)))
    picked = rng.sample(words, depth)
    # prefer an outer namespace that is a textual suffix/prefix of a namespace used inside the pipeline (n / xn, tr / train)
    used = {seg for (ns_, _, _) in ref.instances for seg in ns_}
    conf = [w for w in words if any(u != w and u.endswith(w) for u in used)] or [w for w in words if any(u != w and u.startswith(w) for u in used)]
    if conf and rng.random() < 0.7:
        picked[-1] = rng.choice(conf)
        picked = list(dict.fromkeys(picked))
    ns = '::'.join(picked)
    old_ns = root.get('namespace')
    if rng.random() < 0.5:
        root['namespace'] = ns + ('::' + old_ns if old_ns else '')
        _prefix_context(root, ns)
        how = 'root namespace'
    else:
        if old_ns:
            return None
        wname = 'cfg/wrapper_zz.json'
        while wname in spec['files']:
            wname = wname.replace('.json', 'z.json')
        u = {'file': root['file'], 'as': ns}
        if root.get('part'):
            u['part'] = root['part']
        spec['files'][wname] = {'parts': {'': {'tasks': [], 'values': {}, 'uses': [u]}}}
        root['file'] = wname
        root.pop('part', None)
        _prefix_context(root, ns)
        how = 'wrapper config'
    return spec, root, {n: f'{ns}::{n}' for n in ref.tasks}, f'mount under namespace {ns} via {how}'


def _shuffle_dict(rng, v):
    if isinstance(v, dict):
        items = [(k, _shuffle_dict(rng, x)) for k, x in v.items()]
        rng.shuffle(items)
        return dict(items)
    if isinstance(v, list):
        return [_shuffle_dict(rng, x) for x in v]
    return v


def rw_permute(rng, spec, root, ref, inside_objects=True):
    """permute tasks, uses, config keys, mapping keys at every depth (also inside object definitions), context entries"""
    spec, root = copy.deepcopy(spec), copy.deepcopy(root)
    for f in spec['files'].values():
        for pd in f['parts'].values():
            if 'tasks' in pd and all(not t.endswith('.*') for t in pd['tasks']):
                rng.shuffle(pd['tasks'])
            rng.shuffle(pd.get('uses', []))
            vals = pd.get('values', {})
            new = {}
            for k in rng.sample(list(vals), len(vals)):
                v = vals[k]
                if isinstance(v, dict) and 'class' in v and not inside_objects:
                    new[k] = v
                else:
                    new[k] = _shuffle_dict(rng, v)
            pd['values'] = new
            pd['values_first'] = rng.random() < 0.5
    for s in root.get('context') or []:
        if s['kind'] != 'file':
            s['data'] = _shuffle_dict(rng, s['data'])
    for name, c in spec.get('context_files', {}).items():
        uses = c.pop('uses', None)
        c2 = _shuffle_dict(rng, c)
        c.clear()
        c.update(c2)
        if uses is not None:
            c['uses'] = uses
    return spec, root, ident(ref), 'permute declarations and mapping keys' + ('' if inside_objects else ' (not inside object definitions)')


def rw_module(rng, spec, root, ref):
    """task module variants: permuted parameter order, an extra ignored parameter with an arbitrary value, an extra parameter left at its
    default with dont_persist_default_value, an extra optional input whose task is absent"""
    spec, root = copy.deepcopy(spec), copy.deepcopy(root)
    newpkg = spec['pkg'] + 'v'
    old = spec['pkg']

    def rp(s):
        return s.replace(old + '.', newpkg + '.') if isinstance(s, str) else s
    spec['pkg'] = newpkg
    what = []
    for m in spec['modules']:
        for t in m['tasks']:
            if t.get('abstract'):
                continue
            for inp in t.get('inputs', []):
                if 'ref_class_path' in inp:
                    inp['ref_class_path'] = rp(inp['ref_class_path'])
            r = rng.random()
            if r < 0.3 and len(t['params']) > 1:
                rng.shuffle(t['params'])
                what.append('param order')
            elif r < 0.55:
                t['params'].append({'name': 'extra_ign', 'ignore': True, 'default': 'dflt'})
                what.append('ignored param')
            elif r < 0.7:
                t['params'].append({'name': 'extra_new', 'default': rng.choice([5, 'x', [1], None]), 'drop_default': True})
                what.append('default-valued param')
            elif r < 0.8:
                # dtype=Path parameter whose default is given as a Path object, left at its default
                t['params'].append({'name': 'extra_path', 'dtype': 'Path', 'default': rng.choice(['out/x', '/abs/dir', 'rel']), 'default_is_path': True, 'drop_default': True})
                what.append('default-valued Path param')
            else:
                t['inputs'].append({'form': 'name', 'ref': 'absent_task_for_c02', 'optional': True, 'default': 1, 'access': 'registry',
                                    'registry_key': 'absent_task_for_c02', 'in_parameters': rng.random() < 0.5})
                t['inputs'].sort(key=lambda i: bool(i.get('in_parameters')))
                for pos, inp in enumerate([i for i in t['inputs'] if not i.get('in_parameters')]):
                    if inp.get('access') == 'index':
                        inp['index'] = pos
                what.append('absent optional input')
    for f in spec['files'].values():
        for pd in f['parts'].values():
            pd['tasks'] = [rp(x) for x in pd.get('tasks', [])]
            if 'excluded_tasks' in pd:
                pd['excluded_tasks'] = [rp(x) for x in pd['excluded_tasks']]
            if 'ignored param' in what and rng.random() < 0.7:
                pd.setdefault('values', {})['extra_ign'] = rng.choice(['arbitrary', 42, [1, 2], {'any': 'thing'}])
    return spec, root, ident(ref), 'module variant: ' + ', '.join(sorted(set(what)))


def rw_move_to_context(rng, spec, root, ref):
    """a value written in a config file is moved into the context entry of that config's exact namespace (the file keeps a decoy)"""
    spec, root = copy.deepcopy(spec), copy.deepcopy(root)
    counts = {}
    for (ns, file, part) in ref.instances:
        counts[(file, part)] = counts.get((file, part), 0) + 1
    cands = []
    for (ns, file, part), inst in ref.instances.items():
        if not ns:
            continue
        pd = spec['files'][file]['parts'][part or '']
        for k, v in pd.get('values', {}).items():
            if isinstance(v, dict) and 'class' in v:
                continue
            if inst['values'].get(k) == v:            # not already overridden by the context
                cands.append((ns, file, part, k, v))
    if not cands:
        return None
    ns, file, part, k, v = rng.choice(cands)
    pd = spec['files'][file]['parts'][part or '']
    if counts[(file, part)] == 1 and rng.random() < 0.7:
        pd['values'][k] = S.same_type_value(rng, v)        # decoy: overridden by the context
    entry = {'kind': rng.choice(['dict', 'Context']), 'data': {'for_namespaces': {'::'.join(ns): {k: copy.deepcopy(v)}}}, 'name': 'moved'}
    root['context'] = list(root.get('context') or []) + [entry]
    if len(root['context']) > 1:
        root['context_single'] = False
    return spec, root, ident(ref), f'value {k} of namespace {"::".join(ns)} moved from the config file to the context'


def rw_global_vars(rng, spec, root, ref):
    if not root.get('global_vars'):
        return None
    spec, root = copy.deepcopy(spec), copy.deepcopy(root)
    root['global_vars'] = {'kind': rng.choice(['dict', 'object']), 'values': {'A': rng.choice(['other', '/mnt/x y', 'ü']), 'DIR': '/elsewhere', 'B': 'q' * 5, 'CFGROOT': '<LABROOT>'}}
    return spec, root, ident(ref), 'other values behind the placeholders'


def _respell_objects(rng, v):
    """same parameter object, other spelling of its definition: ignored `verbose` added/changed, default-valued `b` spelled out or omitted"""
    if isinstance(v, dict) and 'class' in v:
        kw = {k: _respell_objects(rng, x) for k, x in v.get('kwargs', {}).items()}
        if v['class'].endswith(('.LabObj', '.LabObjSub')):
            if rng.random() < 0.5:
                kw['verbose'] = not kw.get('verbose', False)
            if 'b' not in kw and rng.random() < 0.5:
                kw['b'] = 3
            elif kw.get('b') == 3 and rng.random() < 0.5:
                kw.pop('b')
        items = list(kw.items())
        rng.shuffle(items)
        return {'class': v['class'], 'kwargs': dict(items)}
    if isinstance(v, list):
        return [_respell_objects(rng, x) for x in v]
    if isinstance(v, dict):
        return {k: _respell_objects(rng, x) for k, x in v.items()}
    return v


def rw_object_spelling(rng, spec, root, ref):
    import json as _json
    if 'LabObj' not in _json.dumps(spec['files']):
        return None
    spec, root = copy.deepcopy(spec), copy.deepcopy(root)
    for f in spec['files'].values():
        for pd in f['parts'].values():
            pd['values'] = {k: _respell_objects(rng, v) for k, v in pd.get('values', {}).items()}
    return spec, root, ident(ref), 'parameter-object definitions respelled (ignored verbose, default-valued b, kwargs order)'


def rw_share(rng, spec, root, ref):
    """equal sub-values of one parameter value written once and referenced (YAML anchor / alias): after loading they are ONE object"""
    spec = copy.deepcopy(spec)
    import json

    def is_cont(x):
        return isinstance(x, (list, dict)) and len(x) > 0 and not (isinstance(x, dict) and 'class' in x)
    n = 0
    for fname, f in spec['files'].items():
        if not fname.endswith(('.yaml', '.yml')):
            continue
        for pd in f['parts'].values():
            for key, v in pd.get('values', {}).items():
                if not isinstance(v, (list, dict)) or (isinstance(v, dict) and 'class' in v):
                    continue
                children = list(v.items()) if isinstance(v, dict) else list(enumerate(v))
                seen = {}
                for k_, c_ in children:
                    if is_cont(c_):
                        sig = json.dumps(c_, sort_keys=False)
                        if sig in seen and type(seen[sig]) is type(c_):
                            v[k_] = seen[sig]
                            n += 1
                        else:
                            seen[sig] = c_
    if not n:
        return None
    return spec, root, ident(ref), f'{n} equal sub-values written once and referenced by a YAML alias'


REWRITINGS = {'share': rw_share, 'objects': rw_object_spelling, 'rename': rw_rename, 'wrap': rw_wrap, 'permute': rw_permute, 'module': rw_module, 'to_context': rw_move_to_context, 'global_vars': rw_global_vars}


def compose(rng, spec, root, kinds, permute_inside_objects=True):
    """apply the named rewritings in order; -> (spec', root', name_map, [descriptions]) or None if one is not applicable"""
    ref = Ref(spec, root)
    if ref.error is not None:
        return None
    name_map = ident(ref)
    descs = []
    applied = []
    for k in sorted(kinds, key=lambda k_: k_ == 'share'):        # (sharing last: the other rewritings rebuild the values)
        fn = REWRITINGS[k]
        out = fn(rng, spec, root, ref) if k != 'permute' else rw_permute(rng, spec, root, ref, permute_inside_objects)
        if out is None:
            continue
        spec, root, m, d = out
        name_map = {a: m[b] for a, b in name_map.items()}
        ref = Ref(spec, root)
        if ref.error is not None or set(ref.tasks) != set(name_map.values()):
            return None
        descs.append(d)
        applied.append(k)
    return spec, root, name_map, descs, applied
