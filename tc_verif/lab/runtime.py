"""Imported by generated task modules: builds task classes from specs; `run` bodies are the boundary probes.

Every run appends one record to the invocation log, emits uid-tagged log messages / run-info records and returns a
provenance value that is a function of (task slug, persisted parameter values in placeholder form, digests of the
input values it read) and of nothing else.
"""
from __future__ import annotations

import ast
import hashlib
import json
import os
from pathlib import Path
from typing import Generator

import numpy as np
import pandas as pd

from taskchain import Task, ModuleTask, DoubleModuleTask, InMemoryData
from taskchain.data import DirData, ContinuesData, GeneratedDataLazy, JSONData, ListOfNumpyData
from taskchain.parameter import Parameter, InputTaskParameter, AutoParameterObject, ParameterObject
from taskchain.chain import ChainObject

from ..canon import tcanon

# ---- process-wide state set by the worker -------------------------------------------------------------------------
STATE = {
    'log_path': os.environ.get('LAB_LOG'),
    'session': os.environ.get('LAB_SESSION', 's?'),
    'chain': None,          # id of the chain object currently being driven (set by the worker per step)
    'step': None,
    'faults': {},           # task full name -> {'on': n (1-based invocation count in this process), 'kind': ...}
    'invocations': {},      # task full name -> count in this process
    'records': [],          # in-memory copy of the invocation log of this process
    'uid': 0,
}


class LabFault(Exception):
    pass


class Unserializable:
    def __repr__(self):
        return '<unserializable>'


# ---- parameter objects available to configs -----------------------------------------------------------------------

class LabObj(AutoParameterObject):
    def __init__(self, a, b=3, verbose=False):
        self.a = a
        self._b = b
        self.verbose = verbose

    @staticmethod
    def dont_persist_default_value_args():
        return ['b']


class LabObjSub(LabObj):
    """subclass that extends the constructor (its own arguments must be part of its representation)"""

    def __init__(self, a, limit=10, b=3, verbose=False):
        super().__init__(a, b, verbose)
        self.limit = limit


class LabObjDerived(AutoParameterObject):
    """keeps the raw constructor argument in `_root` and exposes a DERIVED value under the public name (documented: `_arg` is looked at first)"""

    def __init__(self, root):
        self._root = root

    @property
    def root(self):
        return 'derived:' + str(self._root).upper()


class LabObjVar(AutoParameterObject):
    """variadic constructor: further options are collected in `options` (stored under the same name, as the documentation requires)"""

    def __init__(self, a, shape=(4, 3), **options):
        self.a = a
        self.shape = shape          # a tuple by default (a list when a config spells it out)
        self.options = options


class LabObjSet(AutoParameterObject):
    """parameter object holding a set (the library's persistence helpers explicitly handle sets)"""

    def __init__(self, tags):
        self.tags = set(tags)


class LabChainObj(AutoParameterObject, ChainObject):
    """parameter object that wants to see the chain"""

    def __init__(self, a):
        self.a = a
        self.inited = False
        self.saw_tasks = False

    def init_chain(self, chain):
        self.inited = True
        self.saw_tasks = len(chain.tasks) > 0       # a chain object may look at the chain's tasks: they exist when it is initialised
        self._chain = chain                         # ... and may keep the chain to consult it later (while a task runs)


class LabOpBase(AutoParameterObject):
    """base interface of a family of operations; the children only differ in what they do, they inherit __init__"""

    def __init__(self, amount, unit=None):
        self.amount = amount
        self.unit = unit


class LabOpAdd(LabOpBase):
    pass


class LabOpTuned(AutoParameterObject):
    """names its own ignorable constructor arguments; `debug` and `verbose` are ordinary arguments of this class"""

    def __init__(self, amount, debug=False, verbose=False, cache_dir=None):
        self.amount, self.debug, self.verbose, self.cache_dir = amount, debug, verbose, cache_dir

    @staticmethod
    def ignore_persistence_args():
        return ['cache_dir']


class LabOpMul(LabOpBase):
    pass


class LabObjPlain(ParameterObject):
    def __init__(self, x):
        self.x = x

    def repr(self):
        return f'LabObjPlain(x={self.x!r})'


class LabMem(InMemoryData):
    """in-memory result carrying a payload"""

    def __init__(self):
        super().__init__()
        self.payload = None


class LabJsonLen(JSONData):
    """user-defined persisted data class with a length (0 until a value is set or loaded): data objects may be falsy"""

    DATA_TYPES = []        # only used where a task names it as its data_class

    def __len__(self):
        return len(self._value) if self._value is not None else 0


class LabMemOpt(LabMem):
    """in-memory data class whose constructor takes an (optional) argument: only `run` creates the real object"""

    def __init__(self, note=None):
        super().__init__()
        self.note = note


class IdentityValue:
    """equal only to itself; its repr shows its identity"""


class LockHolder:
    """holds a lock: cannot be deep-copied or pickled"""

    def __init__(self):
        import threading
        self.lock = threading.Lock()


class LabMemEmpty(LabMem):
    """an in-memory result that is an EMPTY container (falsy), e.g. a vocabulary from which a threshold removed every word"""

    def __len__(self):
        return 0


# ---- canonical forms ---------------------------------------------------------------------------------------------

def H(obj) -> str:
    return hashlib.sha256(json.dumps(obj, sort_keys=True).encode()).hexdigest()[:24]


def pcanon(v):
    """canonical form of a parameter value *in placeholder form* (what persistence is supposed to depend on)"""
    if isinstance(v, str) and hasattr(v, 'repr') and isinstance(getattr(v, 'repr'), str):
        try:
            return ['s', ast.literal_eval(v.repr)]
        except Exception:
            return ['s?', v.repr]
    if isinstance(v, LabObj):
        d = {'a': pcanon(v.a)}
        if v._b != 3:
            d['b'] = pcanon(v._b)
        if isinstance(v, LabObjSub):
            d['limit'] = pcanon(v.limit)
        return ['obj', type(v).__name__, d]
    if isinstance(v, LabObjPlain):
        return ['obj', 'LabObjPlain', {'x': pcanon(v.x)}]
    if isinstance(v, LabObjDerived):
        return ['obj', 'LabObjDerived', {'root': pcanon(v._root)}]
    if isinstance(v, LabObjVar):
        return ['obj', 'LabObjVar', {'a': pcanon(v.a), 'options': pcanon(v.options), 'shape': pcanon(list(v.shape))}]
    if isinstance(v, LabObjSet):
        return ['obj', 'LabObjSet', {'tags': sorted(v.tags)}]
    if isinstance(v, LabChainObj):
        return ['obj', 'LabChainObj', {'a': pcanon(v.a), 'inited': bool(v.inited), 'saw_tasks': bool(v.saw_tasks)}]
    if isinstance(v, list):
        return ['l', [pcanon(x) for x in v]]
    if isinstance(v, dict):
        return ['d', sorted([[k, pcanon(x)] for k, x in v.items()], key=lambda kv: json.dumps(kv[0]))]
    return tcanon(v)


def received_canon(v):
    """typed canonical form of what run really received (substituted text), for C09/C11"""
    if isinstance(v, (LabObj,)):
        d = {'a': received_canon(v.a), 'b': received_canon(v._b), 'verbose': received_canon(v.verbose)}
        if isinstance(v, LabObjSub):
            d['limit'] = received_canon(v.limit)
        return ['obj', type(v).__name__, d]
    if isinstance(v, LabObjPlain):
        return ['obj', 'LabObjPlain', {'x': received_canon(v.x)}]
    if isinstance(v, LabObjDerived):
        return ['obj', 'LabObjDerived', {'root': received_canon(v._root)}]
    if isinstance(v, LabObjVar):
        return ['obj', 'LabObjVar', {'a': received_canon(v.a), 'options': received_canon(v.options), 'shape': received_canon(list(v.shape))}]
    if isinstance(v, LabObjSet):
        return ['obj', 'LabObjSet', {'tags': sorted(v.tags)}]
    if isinstance(v, LabChainObj):
        return ['obj', 'LabChainObj', {'a': received_canon(v.a), 'inited': bool(v.inited), 'saw_tasks': bool(v.saw_tasks),
                                      'chain_usable_now': (len(v._chain.tasks) > 0) if getattr(v, '_chain', None) is not None else False}]
    if isinstance(v, list):
        return ['l', [received_canon(x) for x in v]]
    if isinstance(v, dict):
        return ['d', sorted([[k, received_canon(x)] for k, x in v.items()], key=lambda kv: json.dumps(kv[0]))]
    if isinstance(v, str):
        return ['s', str.__str__(v)]
    return tcanon(v)


def plain_records(v):
    """run-info content in comparable form (numpy scalars, paths and tuples keep their kind)"""
    if isinstance(v, np.generic):
        return ['np', type(v).__name__, v.item()]
    if isinstance(v, Path):
        return ['path', str(v)]
    if isinstance(v, tuple):
        return ['tuple', [plain_records(x) for x in v]]
    if isinstance(v, dict):
        if any(not isinstance(k, str) for k in v):
            return ['map', [[plain_records(k), plain_records(x)] for k, x in v.items()]]       # keys that are not strings stay what they are
        return {k: plain_records(x) for k, x in v.items()}
    if isinstance(v, list):
        return [plain_records(x) for x in v]
    if isinstance(v, float) and v != v or v in (float('inf'), float('-inf')):
        return ['float', repr(v)]
    return v


def observed_form(value):
    """what a user gets out of `.value`, in comparable form"""
    if isinstance(value, LabMem):
        return ['mem', value.payload]
    if isinstance(value, _Figure):
        return ['fig', value.axes[0].get_title() if value.axes else None]
    if isinstance(value, Path):
        if value.is_dir():
            return {'__dir__': {str(p.relative_to(value)): p.read_bytes().decode('latin-1') for p in sorted(value.rglob('*')) if p.is_file()},
                    '__subdirs__': sorted(str(p.relative_to(value)) for p in value.rglob('*') if p.is_dir())}
        return ['path', str(value)]
    if callable(value) and getattr(value, '__name__', '') == '<lambda>' and 'taskchain' in getattr(value, '__module__', ''):
        return ['lazy', list(value())]    # GeneratedDataLazy hands out a reader lambda
    return value


def vdigest(value) -> str:
    return H(tcanon(observed_form(value)))


def encode(kind: str, h: str):
    """the value a task of data kind `kind` returns for descriptor hash h (shared by runtime and reference model)"""
    if kind == 'json_len':
        return {'prov': h, 'kind': 'json_len'}
    if kind == 'figure':
        return ['fig', h]          # a matplotlib figure whose title carries the provenance (built in lab_run)
    if kind == 'json_dict':
        return {'prov': h, 'kind': kind, 'nested': {'l': [1, 2.5, None]}}
    if kind == 'json_list':
        return ['prov', h, 3]
    if kind == 'str':
        return 'prov:' + h
    if kind == 'int':
        return int(h[:15], 16)
    if kind == 'numpy':
        return np.frombuffer(bytes.fromhex(h), dtype=np.uint8).copy()
    if kind == 'pandas':
        return pd.DataFrame({'prov': [h, h], 'n': [1, 2]})
    if kind in ('empty_gen', 'empty_listnp'):
        return []          # legitimately empty results (0-byte .jsonl / empty directory): value carries no provenance
    if kind == 'empty_dir':
        return {}
    if kind in ('generator', 'lazy'):
        return [['prov', h], 1, {'k': None}, 'sep\u2028\u2029\x85end']      # (text with unicode line separators is text)
    if kind == 'listnp':
        base = [np.frombuffer(bytes.fromhex(h), dtype=np.uint8).copy(), np.arange(3)]
        if int(h[:2], 16) % 3 == 0:
            base += [np.arange(i) + i for i in range(1, 12)]       # more than ten arrays: their order is part of the value
        return base
    if kind in ('dir', 'continues'):
        return {'prov.txt': h, 'sub/more.bin': 'x' * 10, '.manifest.json': '{}', '.index/offsets.bin': 'o' * 4}     # (hidden entries are entries)
    if kind == 'dir_link':
        # directory result holding a RELATIVE symbolic link that points outside the directory (big shared file linked, not copied)
        return {'prov.txt': h, 'ext_link.txt': 'shared-blob'}
    if kind == 'memory':
        return h
    raise ValueError(kind)


def expected_vdigest(kind: str, h: str) -> str:
    """digest of the value as a consumer / the harness observes it"""
    v = encode(kind, h)
    if kind == 'lazy':
        return H(tcanon(['lazy', v]))
    if kind in ('dir', 'continues', 'empty_dir', 'dir_link'):
        # sub-directories are part of a directory value, also empty ones (`dir_link` results hold an empty `rejected/`)
        subdirs = sorted({'/'.join(n.split('/')[:i]) for n in v for i in range(1, len(n.split('/')))} | ({'rejected'} if kind == 'dir_link' else set()))
        return H(tcanon({'__dir__': v, '__subdirs__': subdirs}))
    if kind == 'memory':
        return H(tcanon(['mem', v]))
    return H(tcanon(v))


from matplotlib.figure import Figure as _Figure      # (taskchain.data imports matplotlib anyway)


RETURN_TYPES = {
    'json_dict': dict, 'json_list': list, 'str': str, 'int': int, 'numpy': np.ndarray, 'pandas': pd.DataFrame,
    'generator': Generator, 'lazy': list, 'listnp': list, 'dir': DirData, 'continues': ContinuesData, 'memory': LabMem,
    'empty_gen': Generator, 'empty_listnp': list, 'empty_dir': DirData, 'dir_link': DirData, 'json_len': dict, 'figure': _Figure,
}
DATA_CLASS = {'lazy': GeneratedDataLazy, 'listnp': ListOfNumpyData, 'empty_listnp': ListOfNumpyData, 'json_len': LabJsonLen}


def descriptor_hash(slug, persisted_params: dict, explicit_digests: list, all_digests: list) -> str:
    return H({'task': slug, 'params': persisted_params, 'explicit': explicit_digests, 'all': sorted(all_digests)})


# ---- run body ----------------------------------------------------------------------------------------------------

def _log_record(rec):
    STATE['records'].append(rec)
    if STATE['log_path']:
        fd = os.open(STATE['log_path'], os.O_WRONLY | os.O_APPEND | os.O_CREAT, 0o644)
        try:
            os.write(fd, (json.dumps(rec) + '\n').encode())
        finally:
            os.close(fd)


class LabAbort(KeyboardInterrupt):
    """an interruption of run: a BaseException that is no Exception"""


def _save_record(task, rec, record):
    """task.save_to_run_info(record); a refusal of a legal record is noted for the monitors before it propagates"""
    try:
        task.save_to_run_info(record)
    except BaseException as e:  # noqa
        _log_record(dict(rec, phase='run_info_error', error=f'{type(e).__name__}: {e}'[:200], record=repr(record)[:120]))
        raise


def lab_run(task, spec, args):
    full = task.fullname
    STATE['uid'] += 1
    uid = f'{os.getpid()}-{STATE["uid"]}'
    n = STATE['invocations'][full] = STATE['invocations'].get(full, 0) + 1
    fault = STATE['faults'].get(full)
    fault_kind = fault['kind'] if fault and fault['on'] <= n <= fault.get('until', fault['on']) else None
    rec = {'uid': uid, 'pid': os.getpid(), 'session': STATE['session'], 'chain': STATE['chain'], 'step': STATE['step'],
           'task': full, 'slug': task.slugname, 'cls': type(task).__name__, 'key': None, 'invocation': n, 'fault': fault_kind}
    try:
        rec['key'] = task.name_for_persistence
    except Exception as e:  # noqa
        rec['key'] = f'<{type(e).__name__}>'
    # parameters ---------------------------------------------------------------------------------------------
    received, persisted = {}, {}
    for p in spec['params']:
        v = args[p['name']] if p['name'] in args else task.params[p['name']]
        received[p['name']] = received_canon(v)
        if p.get('ignore'):
            continue
        if p.get('drop_default') and 'default' in p and v == _default_of(p):
            continue
        persisted[p['name']] = pcanon(v)
        if p.get('dtype') == 'Path' and v is not None:
            # run receives a Path (substituted text); what persistence depends on is the text as written in the config
            raw = pcanon(task.params._parameters[p['name']]._value)
            persisted[p['name']] = ['p', raw[1]] if raw and raw[0] == 's' else raw
    rec['received'] = received
    _log_record(dict(rec, phase='start'))
    if fault_kind == 'raise_before':
        raise LabFault(f'{full} fault raise_before uid={uid}')
    # inputs -------------------------------------------------------------------------------------------------
    explicit = []
    reads = spec.get('reads')
    for i, inp in enumerate(spec['inputs']):
        if inp['form'] in ('pattern', 'pattern_all'):
            continue
        if reads is not None and i not in reads:
            explicit.append(None)
            continue
        how = inp.get('access', 'registry')
        if how == 'args':
            v = args[inp['arg']]
        else:
            key = inp['index'] if how == 'index' else inp['registry_key']
            t = task.input_tasks[key]
            v = t.value if isinstance(t, Task) else t
        explicit.append(vdigest(v))
    all_digests = []
    if any(inp['form'] in ('pattern', 'pattern_all') for inp in spec['inputs']):
        for name, t in task.input_tasks.items():
            if isinstance(t, Task):
                all_digests.append(vdigest(t.value))
    h = descriptor_hash(task.slugname, persisted, explicit, all_digests)
    rec['h'] = h
    rec['explicit'] = explicit
    rec['all'] = sorted(all_digests)
    # uid-tagged side records (C18) ----------------------------------------------------------------------------
    task.logger.info(f'LABMSG uid={uid} n=1 task={full}')
    # ... and a message logged from a worker thread that run starts itself (the task's logger is the same object there)
    import threading as _threading
    _th = _threading.Thread(target=lambda: task.logger.info(f'LABMSG uid={uid} n=1b task={full}'))
    _th.start()
    _th.join()
    if int(h[:2], 16) % 4 == 0:
        # while this task runs, another task object of the same class and config is created (a chain built inside run, a helper thread
        # preparing the next step): creating a task object is no event for the running one
        try:
            type(task)(task.get_config())
        except Exception:
            pass
    _save_record(task, rec, {'lab_uid': uid, 'n': 1})
    _save_record(task, rec, 0)        # falsy records are records too
    _save_record(task, rec, {})
    # statistics as they come out of numpy, a location, a shape: records are python objects, not only JSON-like data
    _save_record(task, rec, {'lab_uid': uid, 'mean': np.float64(0.25), 'count': np.int64(7), 'where': Path('out') / 'x', 'shape': (2, 3),
                                 'hist': {3: 1, 12: 2}, 'best': float('inf'), 'note': 'to be continued\x85', 'title': 'é \u2028x'})
    # a counter object recorded, updated and recorded again (each record shows the state at the moment it was added)
    from collections import defaultdict as _dd
    progress = _dd(int)
    progress['lab_uid'] = uid
    progress['done'] = 1
    _save_record(task, rec, progress)
    progress['done'] = 2
    progress['more'] += 5
    _save_record(task, rec, progress)
    if fault_kind == 'raise_after_log':
        _log_record(dict(rec, phase='fault'))
        raise LabFault(f'{full} fault raise_after_log uid={uid}')
    if fault_kind == 'abort_after_log':
        # the run is interrupted (Ctrl-C in a notebook, sys.exit in a callback): not an Exception
        _log_record(dict(rec, phase='fault'))
        raise LabAbort(f'{full} interrupted uid={uid}')
    task.logger.warning(f'LABMSG uid={uid} n=2 task={full}')
    _save_record(task, rec, {'lab_uid': uid, 'n': 2})
    kind = spec['data_kind']
    _log_record(dict(rec, phase='end'))
    if fault_kind == 'bad_type':
        return Unserializable()
    if fault_kind == 'near_type':
        # a value of a type that is NOT the declared one but that the storage format could write all the same
        return {'int': 3.5, 'str': ['not', 'a', 'string'], 'json_dict': ['a', 'list'], 'json_list': {'a': 'mapping'}, 'numpy': [1, 2, 3],
                'pandas': {'not': 'a frame'},
                'generator': {'a': 'mapping', 'not': 'a generator'}, 'empty_gen': 'text'}.get(kind, Unserializable())
    value = encode(kind, h)
    if fault_kind == 'unserializable' and kind in ('json_dict', 'json_list'):
        value = {'prov': h, 'bad': Unserializable()} if kind == 'json_dict' else ['prov', h, Unserializable()]
    if fault_kind == 'non_ascii':
        # (not a failure of run: the result holds text outside ASCII; whether it can be stored depends on the process's locale)
        if isinstance(value, dict):
            value = dict(value, label='žluťoučký kůň')
        elif isinstance(value, list):
            value = value + ['žluťoučký kůň']
        elif isinstance(value, str):
            value += ' žluťoučký kůň'
    if kind in ('generator', 'empty_gen'):
        def gen():
            for j, item in enumerate(value):
                if fault_kind == 'raise_in_generator' and j == 1:
                    raise LabFault(f'{full} generator fault uid={uid}')
                if j == 0 and isinstance(item, list) and len(item) == 2:
                    # an item that is handed out while still being filled (a session that is opened, yielded and completed by later events):
                    # the result of the task is the finished item, for the computing chain and for every later one
                    open_item = [item[0]]
                    yield open_item
                    open_item.append(item[1])
                else:
                    yield item
        return gen()
    if kind == 'figure':
        import matplotlib.pyplot as plt
        fig = plt.figure(figsize=(2, 1.5))
        ax = fig.add_subplot()
        ax.plot([0, 1], [0, 1])
        ax.set_title(value[1])
        if fault_kind == 'unserializable':
            # a figure that cannot be pickled (a tick formatter built from a local lambda): storing it fails, nothing becomes visible
            from matplotlib.ticker import FuncFormatter
            ax.xaxis.set_major_formatter(FuncFormatter(lambda v_, p_: f'{v_:.1f}'))
        return fig
    if kind == 'dir_link':
        data = task.get_data_object()
        (data.dir / 'prov.txt').write_text(value['prov.txt'])
        blob = Path(task.get_config().base_dir) / 'shared_blob.txt'
        if not blob.exists():
            blob.write_text(value['ext_link.txt'])
        (data.dir / 'rejected').mkdir(exist_ok=True)        # an empty sub-directory belongs to the result
        link = data.dir / 'ext_link.txt'
        if not link.is_symlink():
            os.symlink(os.path.relpath(blob, data.dir), link)      # the work dir and the final dir are siblings: the relative link stays valid
        return data
    if kind in ('dir', 'continues', 'empty_dir'):
        data = task.get_data_object()
        saw = sorted(str(x.relative_to(data.dir)) for x in data.dir.rglob('*') if x.is_file())
        _log_record(dict(rec, phase='workdir', saw_in_workdir=saw))
        for name, content in value.items():
            p = data.dir / name
            p.parent.mkdir(parents=True, exist_ok=True)
            if kind == 'continues':
                p.write_text(content)          # a resumable task overwrites / continues what an earlier attempt left
            else:
                with p.open('a') as fh:        # a directory task relies on a fresh work directory
                    fh.write(content)
            if fault_kind == 'raise_mid_dir':
                raise LabFault(f'{full} dir fault uid={uid}')
        if kind == 'continues' and fault_kind != 'no_finish':
            data.finished()          # (`no_finish`: this session of a resumable computation ends without completing it)
        return data
    if kind == 'memory':
        m = LabMemOpt(note='made by run') if spec.get('mem_opt') else (LabMem() if int(h[:2], 16) % 2 else LabMemEmpty())
        m.payload = value
        return m
    return value


def _default_of(p):
    return p['default']


# ---- class factory -----------------------------------------------------------------------------------------------

DTYPES = {'int': int, 'str': str, 'float': float, 'bool': bool, 'list': list, 'dict': dict, 'Path': Path, None: None}


def make_task_class(ts, module_name, g):
    bases = {'Task': Task, 'ModuleTask': ModuleTask, 'DoubleModuleTask': DoubleModuleTask}
    base = bases.get(ts.get('base', 'Task')) or g[ts['base']]
    if ts.get('class_base') and ts['class_base'] in g:
        base = g[ts['class_base']]
    meta = {}
    if ts.get('meta_name'):
        meta['name'] = ts['meta_name']
    if ts.get('group') and ts.get('base', 'Task') == 'Task':
        meta['task_group'] = ts['group']
    if ts.get('stray_group') and ts.get('base') == 'ModuleTask':
        meta['task_group'] = ts['stray_group']
    if ts.get('group') and ts.get('base') == 'DoubleModuleTask' and ts.get('explicit_group'):
        meta['task_group'] = ts['group']
    if ts.get('abstract'):
        meta['abstract'] = True
    params = []
    for p in ts.get('params', []):
        kw = {}
        if 'default' in p:
            kw['default'] = Path(p['default']) if p.get('default_is_path') else p['default']
        if p.get('name_in_config'):
            kw['name_in_config'] = p['name_in_config']
        if p.get('dtype'):
            kw['dtype'] = DTYPES[p['dtype']]
        if p.get('ignore'):
            kw['ignore_persistence'] = True
        if p.get('drop_default'):
            kw['dont_persist_default_value'] = True
        params.append(Parameter(p['name'], **kw))
    input_decl = []
    for inp in ts.get('inputs', []):
        ref = g[inp['ref_class']] if inp['form'] == 'class' else inp['ref']
        if inp['form'] == 'pattern':
            ref = '~' + ref
        elif inp['form'] == 'pattern_all':
            ref = '~~' + ref
        if inp.get('optional') or inp.get('in_parameters'):
            kw = {'default': inp['default']} if inp.get('optional') else {}
            itp = InputTaskParameter(ref, **kw)
            if inp.get('in_parameters'):
                params.append(itp)
            else:
                input_decl.append(itp)
        else:
            input_decl.append(ref)
    if params:
        meta['parameters'] = params
    if input_decl:
        meta['input_tasks'] = input_decl
    kind = ts['data_kind']
    if kind in DATA_CLASS:
        meta['data_class'] = DATA_CLASS[kind]
    if ts.get('abstract') and not ts.get('has_run', True):
        ns = {'Meta': type('Meta', (), meta), '__module__': module_name}
        return type(ts['cls'], (base,), ns)
    arg_names = [p['name'] for p in ts.get('params', []) if p.get('access') == 'args']
    arg_names += [inp['arg'] for inp in ts.get('inputs', []) if inp.get('access') == 'args' and inp['form'] not in ('pattern', 'pattern_all')]
    src = f"def run(self{''.join(', ' + a for a in arg_names)}) -> _RET:\n    return _lab_run(self, _SPEC, {{{', '.join(repr(a) + ': ' + a for a in arg_names)}}})\n"
    env = {'_RET': LabMemOpt if (kind == 'memory' and ts.get('mem_opt')) else RETURN_TYPES[kind], '_lab_run': lab_run, '_SPEC': ts}
    exec(src, env)
    if ts.get('meta_base') and ts['meta_base'] in g:
        # `class Meta(Other.Meta): strict = True`: inputs, parameters, group and data class are INHERITED from the other task's Meta
        meta_cls = type('Meta', (g[ts['meta_base']].Meta,), {'strict': True})
    else:
        meta_cls = type('Meta', (), meta)
    ns = {'Meta': meta_cls, 'run': env['run'], '__module__': module_name, 'LAB_SPEC': ts}
    if ts.get('falsy_task'):
        # a task class with a length of its own (number of items it has collected so far): its objects are falsy, and tasks all the same
        ns['__len__'] = lambda self: 0
    return type(ts['cls'], (base,), ns)


def build_module(g, specs):
    if isinstance(specs, str):
        specs = json.loads(specs)
    for ts in specs:
        g[ts['cls']] = make_task_class(ts, g['__name__'], g)


def expected_vdigest_for(task_cls, param_values: dict, explicit_values: list):
    """digest of the value `task_cls` must return when run receives these parameter values and these input values
    (the same computation lab_run performs; used to judge test helpers fed with arbitrary mock values)"""
    ts = task_cls.LAB_SPEC
    persisted = {}
    for p in ts['params']:
        v = param_values[p['name']]
        if p.get('ignore'):
            continue
        if p.get('drop_default') and 'default' in p and v == p['default']:
            continue
        persisted[p['name']] = pcanon(v) if not (p.get('dtype') == 'Path' and v is not None) else ['p', str(v)]
    explicit = []
    it = iter(explicit_values)
    reads = ts.get('reads')
    for i, inp in enumerate(ts['inputs']):
        if inp['form'] in ('pattern', 'pattern_all'):
            continue
        v = next(it)
        explicit.append(None if (reads is not None and i not in reads) else vdigest(v))
    h = descriptor_hash(task_cls.slugname, persisted, explicit, [])
    return expected_vdigest(ts['data_kind'], h)
