"""LabSpec -> real python package + config/context files in a scratch directory."""
from __future__ import annotations

import json
from pathlib import Path

import yaml


def use_string(u, file_abs):
    s = ''
    if u.get('file'):
        s = ('{CFGROOT}/' + u['file']) if u.get('via_placeholder') else file_abs(u['file'])
    if u.get('part'):
        s += '#' + u['part']
    if u.get('as'):
        s += ' as ' + u['as']
    return s


def part_data(pdata, file_abs):
    d = {}
    if pdata.get('tasks') is not None:
        t = pdata['tasks']
        d['tasks'] = t[0] if (len(t) == 1 and pdata.get('tasks_as_str')) else list(t)
    if pdata.get('excluded_tasks'):
        d['excluded_tasks'] = list(pdata['excluded_tasks'])
    if pdata.get('uses'):
        uses = [use_string(u, file_abs) for u in pdata['uses']]
        d['uses'] = uses[0] if (len(uses) == 1 and pdata.get('uses_as_str')) else uses
    if pdata.get('main_part'):
        d['main_part'] = True
    elif pdata.get('main_part') is False:
        d['main_part'] = False
    order = pdata.get('key_order')
    vals = pdata.get('values', {})
    keys = order if order else list(vals)
    for k in keys:
        d[k] = vals[k]
    if pdata.get('values_first'):
        d = {**{k: d[k] for k in keys}, **{k: v for k, v in d.items() if k not in keys}}
    return d


def context_data(cdata, file_abs):
    d = {k: v for k, v in cdata.items() if k not in ('uses',)}
    if cdata.get('uses'):
        d['uses'] = [use_string(u, file_abs) for u in cdata['uses']]
    return d


def dump(path: Path, data, fmt):
    path.parent.mkdir(parents=True, exist_ok=True)
    if fmt == 'json':
        path.write_text(json.dumps(data, indent=1))
    else:
        path.write_text(yaml.safe_dump(data, sort_keys=False, allow_unicode=True))


def write_config_file(root_dir, fname, f):
    root_dir = Path(root_dir)

    def file_abs(x):
        return str(root_dir / x)
    fmt = fname.rsplit('.', 1)[-1]
    if f.get('multi'):
        data = {'configs': {p: part_data(pd, file_abs) for p, pd in f['parts'].items()}}
    else:
        data = part_data(f['parts'][''], file_abs)
    dump(root_dir / fname, data, fmt)


def emit(spec, root_dir: Path):
    """writes <root_dir>/src/<pkg>/... and <root_dir>/<config files>; returns dict of useful paths"""
    root_dir = Path(root_dir)
    src = root_dir / 'src'
    pkg_dir = src / spec['pkg']
    pkg_dir.mkdir(parents=True, exist_ok=True)
    (pkg_dir / '__init__.py').write_text('')
    for m in spec['modules']:
        d = pkg_dir
        if m.get('package'):
            d = pkg_dir / m['package']
            d.mkdir(exist_ok=True)
            (d / '__init__.py').write_text('')
        body = ('from tc_verif.lab.runtime import build_module\n'
                f'build_module(globals(), {json.dumps(m["tasks"])!r})\n')
        (d / f'{m["name"]}.py').write_text(body)

    def file_abs(f):
        return str(root_dir / f)

    for fname, f in spec.get('files', {}).items():
        write_config_file(root_dir, fname, f)
    for fname, c in spec.get('context_files', {}).items():
        dump(root_dir / fname, context_data(c, file_abs), fname.rsplit('.', 1)[-1])
    return {'src': str(src), 'root': str(root_dir)}
