"""Seeded generator of LabSpecs (task modules + config tree + contexts) and of roots that instantiate them.

The generator is conservative: it only emits constructs whose meaning the documentation fixes (DESIGN.md Appendix A).
`feat` switches features on/off per property.
"""
from __future__ import annotations

import copy
import random

CLS_WORDS = ['Train', 'TrainData', 'TrainX', 'Data', 'DataX', 'Model', 'Eval', 'Feat', 'FeatTask', 'Raw', 'RawX', 'Split',
             'Norm', 'N', 'NX', 'Agg', 'AggTask', 'Report', 'Rep', 'Load', 'LoadAll', 'A', 'AB', 'Ab', 'Load_Data', 'Clean_Data_Task', 'Raw_X']
# (the last groups are also task names: a task may be called like the group, or the namespace, of one of its inputs)
GROUPS = [None, None, 'g', 'xg', 'g:h', 'h', 'gx', 'data', 'load:rep']
NS_WORDS = ['n', 'xn', 'nx', 'm', 'xm', 'train', 'tr', 'xtr', 'valid', 'a', 'xa', 'ab']
# (the last ones are also names of attributes / methods of Config and dict: parameters may be called like that)
PARAM_NAMES = ['p', 'q', 'size', 'dim', 'dim2', 'lr', 'lr2', 'alpha', 'opt', 'flag', 'names', 'cfgmap', 'name', 'namespace', 'context', 'keys', 'items', 'base_dir']
DATA_KINDS = ['json_dict', 'json_dict', 'json_list', 'str', 'int', 'numpy', 'pandas', 'generator', 'lazy', 'listnp', 'dir', 'continues', 'memory',
              'json_dict', 'numpy', 'dir', 'generator', 'empty_gen', 'empty_listnp', 'empty_dir', 'json_len']
STR_ALPHABET = ['a', 'b', 'x', "'", '"', ', ', ': ', '###', '$$$', '=', '[', ']', 'é', ' ', '\\', '\n', '0']

DEFAULT_FEAT = {
    'namespaces': True, 'multi_config': True, 'contexts': True, 'global_vars': True, 'objects': True, 'patterns': True,
    'optional_inputs': True, 'groups': True, 'module_tasks': True, 'adversarial_strings': False, 'abstract': True,
    'excluded': True, 'yaml': True, 'same_file_twice': True, 'data_kinds': DATA_KINDS, 'max_modules': 4, 'max_tasks': 4,
    'name_in_config': True, 'dtypes': True, 'ignore': True, 'drop_default': True, 'confusable_names': True,
}


def gen_value(rng, feat, depth=0, placeholders=None):
    if depth == 0 and feat.get('long_values', True) and rng.random() < 0.06:
        # long values (id lists, vocabularies, texts): variants of them differ in the MIDDLE (same_type_value)
        n = rng.choice([120, 400])
        return [rng.randrange(1000, 9999) for _ in range(n)] if rng.random() < 0.6 else ''.join(rng.choice('abcdefgh ') for _ in range(n))
    if depth == 0 and feat.get('twin_subvalues', True) and rng.random() < 0.06:
        # a value holding the same sub-value twice (train / valid column lists ...): two equal objects here, one shared object after a YAML alias
        sub_ = rng.choice([[rng.randrange(9) for _ in range(rng.randint(1, 4))], {'k': rng.randrange(9), 'cols': ['a', 'b']}, [['x', 1], 'y']])
        return rng.choice([[sub_, copy.deepcopy(sub_)], {'train': sub_, 'valid': copy.deepcopy(sub_), 'n': 1}])
    r = rng.random()
    if depth < 2 and r < 0.15:
        return [gen_value(rng, feat, depth + 1, placeholders) for _ in range(rng.randint(0, 3))]
    if depth < 2 and r < 0.3:
        if placeholders and rng.random() < 0.25:
            # mapping KEYS that contain braces: keys are not substituted, they are ordinary text
            return {'{' + ph + '}' + rng.choice(['', 'k']): gen_value(rng, feat, depth + 1, placeholders) for ph in rng.sample(placeholders, rng.randint(2, len(placeholders)))}
        return {rng.choice(['k', 'j', 'kk', 'a']) + str(i): gen_value(rng, feat, depth + 1, placeholders) for i in range(rng.randint(0, 3))}
    if r < 0.5:
        return rng.choice([0, 1, 2, 5, -3, 10 ** 12, 7])
    if r < 0.6:
        return rng.choice([0.5, 2.25, -1.5, 1e-3, 1e-05, 5e-07, 1e+22, 2.5e-09, 1e16, 1e-12, 3e-13])   # (JSON spells the small and large ones without a decimal point)
    if r < 0.7:
        return rng.choice([True, False, None])
    s = ''.join(rng.choice(STR_ALPHABET if feat.get('adversarial_strings') else ['a', 'b', 'x', 'é', ' ', '0', '/'])
                for _ in range(rng.randint(0, 6)))
    if placeholders and rng.random() < 0.5:
        s += '{' + rng.choice(placeholders) + '}' + rng.choice(['', '/t', '{UNDEF}'])
    elif placeholders and rng.random() < 0.2:
        # braces that are no known placeholder (regular expressions, templates) next to characters that repr() escapes or re-quotes
        s += rng.choice(['\\d{4}-\\d{2}', "{year}: it's {n}", 'x{1,3}\n', '{"k": "v"}', "a'{}\\"])
    return s


def gen_objdef(rng, feat, placeholders=None):
    if feat.get('chain_objects') and rng.random() < 0.4:
        return {'class': 'tc_verif.lab.runtime.LabChainObj', 'kwargs': {'a': rng.choice([1, 'z', [1, 2]])}}
    if feat.get('set_objects') and rng.random() < 0.4:
        return {'class': 'tc_verif.lab.runtime.LabObjSet', 'kwargs': {'tags': rng.sample(['alpha', 'beta', 'gamma', 'delta', 'eps', 'zeta', 'eta'], rng.randint(2, 6))}}
    if rng.random() < 0.1:
        kw = {'a': rng.choice([1, 'z', [1, 2]])}
        for k_ in rng.sample(['upper', 'lower', 'mode'], rng.randint(0, 2)):
            kw[k_] = rng.choice([5, 50, 'x', None])
        if rng.random() < 0.3:
            kw['shape'] = rng.choice([[4, 3], [2], []])
        return {'class': 'tc_verif.lab.runtime.LabObjVar', 'kwargs': kw}
    if rng.random() < 0.12:
        return {'class': 'tc_verif.lab.runtime.LabObjDerived', 'kwargs': {'root': rng.choice(['data/x', 'r'] + (['{' + placeholders[0] + '}/corpus'] if placeholders else []))}}
    if rng.random() < 0.7:
        kw = {'a': gen_value(rng, feat, 1, placeholders)}
        if rng.random() < 0.5:
            kw['b'] = rng.choice([3, 4, 'z'])
        if rng.random() < 0.3:
            kw['verbose'] = rng.choice([True, False])
        if feat.get('sub_objects', True) and rng.random() < 0.3:
            if rng.random() < 0.6:
                kw['limit'] = rng.choice([10, 11, 'z', [1]])
            return {'class': 'tc_verif.lab.runtime.LabObjSub', 'kwargs': kw}
        return {'class': 'tc_verif.lab.runtime.LabObj', 'kwargs': kw}
    return {'class': 'tc_verif.lab.runtime.LabObjPlain', 'kwargs': {'x': rng.choice([1, 2, 'u', [1, 2]])}}


def snake(cls_name):
    import re
    name = re.sub(r'(?<!^)(?=[A-Z])', '_', cls_name).lower()
    return name[:-5] if name.endswith('_task') else name


def gen_spec(rng: random.Random, feat=None):
    feat = {**DEFAULT_FEAT, **(feat or {})}
    pkg = 'labp_' + ''.join(rng.choice('abcdefghijklmnop') for _ in range(8))
    placeholders = ['A', 'DIR', 'B'] if feat['global_vars'] and rng.random() < 0.6 else None
    n_mod = rng.randint(1, feat['max_modules'])
    words = rng.sample(CLS_WORDS, len(CLS_WORDS)) if feat['confusable_names'] else [w for w in CLS_WORDS if len(w) > 3]
    modules = []
    files = {}
    used_names = set()
    # ---- modules and task classes (inputs are added once the config tree is known) -----------------------------
    for mi in range(n_mod):
        mname = rng.choice(['tasks', 'feats', 'model', 'base', 'xbase'][mi:mi + 1] or ['mod']) + (str(mi) if rng.random() < 0.3 else '')
        package = rng.choice([None, None, 'sub']) if feat['module_tasks'] else None
        tasks = []
        if feat['abstract'] and rng.random() < 0.3:
            tasks.append({'cls': 'Abstract' + words.pop(), 'abstract': True, 'data_kind': 'json_dict', 'params': [], 'inputs': []})
        for ti in range(rng.randint(1, feat['max_tasks'])):
            cls = words.pop() if words else f'T{mi}{ti}'
            # two different classes must not share a task name (the library identifies a task by its group-qualified name)
            while snake(cls) in used_names and words:
                cls = words.pop()
            if snake(cls) in used_names:
                cls = f'T{mi}x{ti}'
            used_names.add(snake(cls))
            ts = {'cls': cls, 'data_kind': rng.choice(feat['data_kinds']), 'params': [], 'inputs': []}
            if ts['data_kind'] == 'memory' and rng.random() < 0.4:
                ts['mem_opt'] = True        # data class with an optional constructor argument
            kindr = rng.random()
            if feat['module_tasks'] and kindr < 0.15:
                ts['base'] = 'ModuleTask'
                if rng.random() < 0.35:
                    ts['stray_group'] = rng.choice(['leftover', 'g'])     # a `task_group` left in the Meta of a ModuleTask: ignored, the module names the group
            elif feat['module_tasks'] and kindr < 0.25 and package:
                ts['base'] = 'DoubleModuleTask'
            elif feat['groups']:
                g = rng.choice(GROUPS)
                if g:
                    ts['group'] = g
            if rng.random() < 0.2:
                mn = rng.choice(['custom', 'data', 'x_' + snake(cls)]) + str(ti)
                if rng.random() < 0.25:
                    mn = f'step{mi}{ti}_task'      # an explicit name is used verbatim (only class-derived names lose a `_task` suffix)
                if mn not in used_names:
                    ts['meta_name'] = mn
                    used_names.add(mn)
            for pi in range(rng.randint(0, 3)):
                pn = rng.choice(PARAM_NAMES)
                if any(p['name'] == pn for p in ts['params']):
                    continue
                p = {'name': pn}
                if rng.random() < 0.5:
                    p['default'] = gen_value(rng, feat, 1)
                if feat['name_in_config'] and rng.random() < 0.2:
                    p['name_in_config'] = pn + '_cfg'
                if feat['ignore'] and rng.random() < 0.15:
                    p['ignore'] = True
                if feat['drop_default'] and 'default' in p and rng.random() < 0.3:
                    p['drop_default'] = True
                if rng.random() < 0.5:
                    p['access'] = 'args'
                ts['params'].append(p)
            tasks.append(ts)
        modules.append({'name': mname if mname not in [m['name'] for m in modules] else mname + 'z', 'package': package, 'tasks': tasks})
    spec = {'pkg': pkg, 'modules': modules, 'files': {}, 'context_files': {}, 'placeholders': placeholders}
    # ---- config files: one per module; a DAG of `uses` (file k uses files j>k) ---------------------------------
    order = list(range(n_mod))
    fnames = []
    for mi in order:
        ext = 'yaml' if feat['yaml'] and rng.random() < 0.4 else 'json'
        # config names with dots in them (`experiment.v1.yaml` is the config `experiment.v1`)
        dotted = rng.choice(['', '', '', '.v1', '.v2', '.2024.final']) if feat.get('dotted_file_names', True) else ''
        fnames.append(f'cfg/{rng.choice(["conf", "c", "pipeline", "x"])}{mi}{dotted}.{ext}')
    mounts = {}   # (k, j) -> as | None
    extra_mounts = []   # (k, j, as): the same file mounted a second time under another namespace
    # every namespace word is used once per spec: a reference that starts with the declaring task's own namespace is read as
    # absolute by the library and as relative by the documentation's rule (don't-care zone, DESIGN.md A.5)
    ns_words = rng.sample(NS_WORDS, len(NS_WORDS))
    spec_ns_words = ns_words
    word_of_file = {}
    spec_twin_files = []
    pairs_ = []
    for j in range(1, n_mod):
        ps = [k for k in range(j) if rng.random() < 0.5] or [rng.randrange(j)]     # every file is used by at least one earlier file
        pairs_ += [(k, j) for k in ps]
    forced_twin = feat['namespaces'] and n_mod == 4 and len(ns_words) >= 2 and rng.random() < 0.4
    if forced_twin:
        # root uses file1 as W and file2 as A; file2 uses file3 as W: namespaces `W` and `A::W` hold different pipelines
        pairs_ = [(0, 1), (0, 2), (2, 3)]
        w_, a_ = ns_words.pop(), ns_words.pop()
        word_of_file.update({1: w_, 2: a_, 3: w_})
        spec_twin_files.extend([1, 3])
    for (k, j) in sorted(pairs_):
        if True:
            if forced_twin:
                mounts[(k, j)] = word_of_file[j]
                continue
            if True:
                ns = None
                if feat['namespaces'] and rng.random() < 0.6:
                    if j not in word_of_file and ns_words:
                        w = ns_words.pop()
                        if rng.random() < 0.15 and ns_words:
                            w = w + '::' + ns_words.pop()
                        word_of_file[j] = w
                    ns = word_of_file.get(j)
                mounts[(k, j)] = ns
    # the same namespace word for two DIFFERENT files that never lie on one path and have no common parent: namespaces such as `n` and `a::n`
    # (suffix-related) then hold different pipelines
    if feat['namespaces'] and rng.random() < 0.35 and len(word_of_file) >= 2:
        def reach(a, b, seen=()):
            return any(k_ == a and (j_ == b or (j_ not in seen and reach(j_, b, seen + (j_,)))) for (k_, j_) in mounts)
        js = list(word_of_file)
        rng.shuffle(js)
        done_ = False
        for j1 in js:
            for j2 in js:
                if j1 >= j2 or done_:
                    continue
                parents1 = {k_ for (k_, j_) in mounts if j_ == j1}
                parents2 = {k_ for (k_, j_) in mounts if j_ == j2}
                if reach(j1, j2) or reach(j2, j1) or (parents1 & parents2):
                    continue
                # also no parent of one may reach the other's parent with the same word on the way: keep it simple, require different depths
                w1 = word_of_file[j1]
                for (k_, j_) in list(mounts):
                    if j_ == j2 and mounts[(k_, j_)] is not None:
                        mounts[(k_, j_)] = w1
                word_of_file[j2] = w1
                done_ = True
                spec_twin_files.extend([j1, j2])
    mod_path = lambda m: '.'.join([pkg] + ([m['package']] if m.get('package') else []) + [m['name']])  # noqa
    for mi, m in enumerate(modules):
        mp = mod_path(m)
        concrete = [t for t in m['tasks']]
        if rng.random() < 0.6:
            tasks_decl = [mp + '.*']
        else:
            tasks_decl = [f'{mp}.{t["cls"]}' for t in concrete if not t.get('abstract')]
            rng.shuffle(tasks_decl)
        pdata = {'tasks': tasks_decl, 'values': {}, 'uses': []}
        if feat['excluded'] and rng.random() < 0.2 and len([t for t in concrete if not t.get('abstract')]) > 1 and tasks_decl == [mp + '.*']:
            pdata['excluded_tasks'] = [f'{mp}.{rng.choice([t for t in concrete if not t.get("abstract")])["cls"]}']
        for (k, j), ns in mounts.items():
            if k == mi:
                pdata['uses'].append({'file': fnames[j], 'as': ns})
        if feat['same_file_twice'] and pdata['uses'] and rng.random() < 0.25:
            u = rng.choice(pdata['uses'])
            if ns_words:
                w2 = ns_words.pop()
                pdata['uses'].append({'file': u['file'], 'as': w2})
                extra_mounts.append((mi, fnames.index(u['file']), w2))
        rng.shuffle(pdata['uses'])
        files[fnames[mi]] = {'parts': {'': pdata}}
    spec['files'] = files
    # ---- parameter values --------------------------------------------------------------------------------------
    for mi, m in enumerate(modules):
        vals = files[fnames[mi]]['parts']['']['values']
        for t in m['tasks']:
            for p in t['params']:
                nic = p.get('name_in_config') or p['name']
                need = 'default' not in p
                if nic in vals:
                    v = vals[nic]
                elif p.get('drop_default') and p.get('default') is not None and rng.random() < 0.35:
                    # the default value spelled out in the config (it still counts as the default: python equality)
                    v = copy.deepcopy(p['default'])
                    vals[nic] = v
                elif feat['dtypes'] and feat.get('path_params', True) and 'dtype' not in p and p.get('default', None) is None and rng.random() < 0.07:
                    # a location given in the config and declared dtype=Path: run receives a Path, the storage key is made from the text as written
                    p['dtype'] = 'Path'
                    v = rng.choice(['data/in.csv', '/abs/dir/f', 'rel', 'out/é x', '~/store/x', '~'] + (['{DIR}/ratings.csv', '{DIR}/{A}/f', 'sub/{B}'] if placeholders else []))
                    vals[nic] = v
                    continue
                elif need or rng.random() < 0.5:
                    if feat['objects'] and rng.random() < 0.15:
                        v = gen_objdef(rng, feat, placeholders)
                        if rng.random() < 0.35 and 'LabChainObj' not in v['class']:     # (the chain initialises only top-level ChainObject values)
                            # parameter objects nested in a list / mapping parameter value
                            v = rng.choice([[v, gen_objdef(rng, dict(feat, chain_objects=False), placeholders)], {'first': v, 'n': 1}, [1, v]])
                    else:
                        v = gen_value(rng, feat, 0, placeholders)
                    vals[nic] = v
                else:
                    continue
                if feat['dtypes'] and 'dtype' not in p and rng.random() < 0.3 and not (isinstance(v, dict) and 'class' in v):
                    dt = {int: 'int', str: 'str', float: 'float', bool: 'bool', list: 'list', dict: 'dict'}.get(type(v))
                    if dt and ('default' not in p or p['default'] is None or type(p['default']) is type(v)):
                        p['dtype'] = dt
    # a parameter name shared by several tasks of one file shares its config value; dtype must then fit all: drop dtype on clashes
    for mi, m in enumerate(modules):
        vals = files[fnames[mi]]['parts']['']['values']
        for t in m['tasks']:
            for p in t['params']:
                nic = p.get('name_in_config') or p['name']
                if 'dtype' in p:
                    py = {'int': int, 'str': str, 'float': float, 'bool': bool, 'list': list, 'dict': dict, 'Path': str}[p['dtype']]
                    for v in ([vals[nic]] if nic in vals else []) + ([p['default']] if 'default' in p else []):
                        if v is not None and not isinstance(v, py):
                            p.pop('dtype', None)
                            break
    if feat.get('dup_module_file', True) and n_mod >= 2 and rng.random() < 0.3 and ns_words:
        j = rng.randrange(1, n_mod)
        src_f = files[fnames[j]]['parts']['']
        dup = copy.deepcopy(src_f)
        mp = mod_path(modules[j])
        conc = [t for t in modules[j]['tasks'] if not t.get('abstract')]
        if 'excluded_tasks' in dup:
            dup.pop('excluded_tasks')
        elif len(conc) > 1 and dup['tasks'] == [mp + '.*']:
            # exclude a class no other task of the module depends on is not known yet (inputs come later): exclusion goes to the copy
            dup['excluded_tasks'] = [f'{mp}.{conc[-1]["cls"]}']
        dup_name = f'cfg/dup{j}.json'
        files[dup_name] = {'parts': {'': dup}}
        files[fnames[0]]['parts']['']['uses'].append({'file': dup_name, 'as': ns_words.pop()})
        spec['dup_file'] = dup_name
    # ---- multi-config wrapping ---------------------------------------------------------------------------------
    if feat['multi_config']:
        for fname in list(files):
            if rng.random() < 0.25:
                pdata = files[fname]['parts']['']
                part = rng.choice(['main', 'p1', 'v2'])
                other_vals = copy.deepcopy(pdata['values'])
                for k in list(other_vals):
                    if rng.random() < 0.5 and not isinstance(other_vals[k], dict):
                        other_vals[k] = gen_value(rng, feat, 1) if not isinstance(other_vals[k], (int, float, str, list)) else \
                            {int: 99, float: 9.5, str: 'other', list: ['o'], bool: not other_vals[k]}.get(type(other_vals[k]), 99)
                other = {'tasks': list(pdata['tasks']), 'values': other_vals, 'uses': copy.deepcopy(pdata['uses'])}
                if 'excluded_tasks' in pdata:
                    other['excluded_tasks'] = list(pdata['excluded_tasks'])
                pdata['main_part'] = True
                if rng.random() < 0.4:
                    # the other part says explicitly that it is NOT the main one, and is listed first
                    other['main_part'] = False
                    files[fname] = {'multi': True, 'parts': {'alt': other, part: pdata}}
                else:
                    files[fname] = {'multi': True, 'parts': {part: pdata, 'alt': other}}
    # ---- `#part` references: embed a used config as another part of the using file -------------------------------
    if feat['multi_config']:
        for fname in list(files):
            if rng.random() < 0.3:
                f = files[fname]
                for part, pdata in list(f['parts'].items()):
                    cands = [u for u in pdata.get('uses', []) if u.get('file') and u['file'] != fname and not files[u['file']].get('multi')]
                    if not cands or part == 'alt':
                        continue
                    u = rng.choice(cands)
                    emb = copy.deepcopy(files[u['file']]['parts'][''])
                    pname = 'emb' + str(spec_ns_words.__len__())
                    if not f.get('multi'):
                        pdata['main_part'] = True
                        files[fname] = f = {'multi': True, 'parts': {'mainp': pdata}}
                    f['parts'][pname] = emb
                    ufile_ = u['file']
                    for x in pdata['uses']:
                        if x.get('file') == ufile_:
                            x.pop('file')
                            x['part'] = pname
                    break
    # ---- inputs ------------------------------------------------------------------------------------------------
    spec['ns_twin_files'] = spec_twin_files
    add_inputs(rng, spec, fnames, mounts, feat, extra_mounts)
    if feat.get('meta_inheritance', True):
        # a task whose Meta class subclasses another task's Meta and relies on the inherited declarations (inputs, parameters, group, data class)
        taken = {snake(t_['cls']) for m_ in modules for t_ in m_['tasks']} | {t_.get('meta_name') for m_ in modules for t_ in m_['tasks']}
        for m_ in modules:
            cands_ = [t_ for t_ in m_['tasks'] if not t_.get('abstract') and not t_.get('meta_name')]
            if cands_ and rng.random() < feat.get('meta_inheritance_p', 0.15):
                a_ = rng.choice(cands_)
                b_ = copy.deepcopy(a_)
                b_['cls'] = a_['cls'] + 'Strict'
                b_['meta_base'] = a_['cls']
                if snake(b_['cls']) not in taken:
                    m_['tasks'].insert(m_['tasks'].index(a_) + 1, b_)
                    taken.add(snake(b_['cls']))
                    if rng.random() < 0.5:
                        b_['class_base'] = a_['cls']        # `class XStrict(X)`: the task class itself derives from the other task class
                        bare_ = slug_of(a_, pkg, m_).split(':')[-1]
                        used_ = any(i_.get('ref_class') == a_['cls'] or (i_.get('ref') or '').split('::')[-1].split(':')[-1] == bare_ or i_['form'].startswith('pattern')
                                    for m2_ in modules for t2_ in m2_['tasks'] for i_ in t2_.get('inputs', []))
                        mp_ = mod_path(m_)
                        if feat['excluded'] and not used_ and rng.random() < 0.6:
                            # the base class is excluded from the chain; the class derived from it is a task of its own and stays
                            for f_ in files.values():
                                for pd_ in f_['parts'].values():
                                    if pd_.get('tasks') == [mp_ + '.*'] and 'excluded_tasks' not in pd_:
                                        pd_['excluded_tasks'] = [f'{mp_}.{a_["cls"]}']
    if feat.get('falsy_tasks', True):
        for m_ in modules:
            for t_ in m_['tasks']:
                if not t_.get('abstract') and rng.random() < 0.04:
                    t_['falsy_task'] = True
    spec['fnames'] = fnames
    spec['extra_mounts'] = extra_mounts
    spec['free_ns_words'] = list(ns_words)
    if placeholders:
        for f in files.values():
            for pd in f['parts'].values():
                for u in pd.get('uses', []):
                    if u.get('file') and rng.random() < 0.25:
                        u['via_placeholder'] = True     # the path is written as {CFGROOT}/<file>: found only if global_vars are applied
    return spec


def rel_paths(n_mod, mounts):
    """for each file k: list of (j, relative namespace tuple) reachable through uses (all paths)"""
    out = {k: [] for k in range(n_mod)}

    def walk(k, j, rel, seen):
        for (a, b), ns in mounts.items():
            if a == j and (a, b) not in seen:
                r = rel + (tuple(ns.split('::')) if ns else ())
                out[k].append((b, r))
                walk(k, b, r, seen | {(a, b)})
    for k in range(n_mod):
        walk(k, k, (), frozenset())
    return out


def slug_of(ts, pkg, module):
    name = ts.get('meta_name') or snake(ts['cls'])
    base = ts.get('base', 'Task')
    if base == 'ModuleTask':
        group = module['name']
    elif base == 'DoubleModuleTask':
        group = ':'.join(([module['package']] if module.get('package') else [pkg]) + [module['name']])
    else:
        group = ts.get('group') or ''
    return (group + ':' + name) if group else name


def add_inputs(rng, spec, fnames, mounts, feat, extra_mounts=()):
    modules = spec['modules']
    pkg = spec['pkg']
    n_mod = len(modules)
    reach = rel_paths(n_mod, mounts)
    mod_path = lambda m: '.'.join([pkg] + ([m['package']] if m.get('package') else []) + [m['name']])  # noqa
    # `same_file_twice` mounts are not in `mounts` (they reuse a file): references only go through the primary mounts
    for mi, m in enumerate(modules):
        concrete = [t for t in m['tasks'] if not t.get('abstract')]
        for ti, t in enumerate(concrete):
            if t.get('abstract'):
                continue
            cands = [(mi, (), u) for u in concrete[:ti]]
            for (j, rel) in reach[mi]:
                for u in modules[j]['tasks']:
                    if not u.get('abstract'):
                        cands.append((j, rel, u))
            # second mount of the same file: the same task under another namespace is a different input
            for (k2, j2, w2) in extra_mounts:
                if k2 == mi:
                    for u in modules[j2]['tasks']:
                        if not u.get('abstract'):
                            cands.append((j2, tuple(w2.split('::')), u))
            rng.shuffle(cands)
            chosen = cands[:rng.choice([0, 1, 1, 2, 2, 3])]
            # the same upstream task taken from both mounts of one file (train/valid pattern)
            for (j, rel, u) in list(chosen):
                twins = [(j2, tuple(w2.split('::')), u) for (k2, j2, w2) in extra_mounts if k2 == mi and j2 == j and tuple(w2.split('::')) != rel]
                twins += [(j, r2, u) for (j_, r2) in reach[mi] if j_ == j and r2 != rel and len(r2) == 1 and any(k2 == mi and j2 == j for (k2, j2, _) in extra_mounts)]
                if twins and rng.random() < 0.6:
                    tw = rng.choice(twins)
                    if tw not in chosen:
                        chosen.append(tw)
            bare_seen = set(p['name'] for p in t['params'])
            inputs = []
            idx = 0
            for (j, rel, u) in chosen:
                uslug = slug_of(u, pkg, modules[j])
                bare = uslug.split(':')[-1]
                form_r = rng.random()
                if rel:
                    # a task under a sub-namespace can only be addressed by a namespace-qualified name
                    ref = '::'.join(rel) + '::' + (uslug if rng.random() < 0.6 else bare)
                    inp = {'form': 'ns_name', 'ref': ref}
                elif form_r < 0.45:
                    inp = {'form': 'class', 'ref_class': u['cls'], 'ref_class_path': f'{mod_path(modules[j])}.{u["cls"]}'}
                    if j != mi:
                        inp['form'] = 'name'       # classes of other modules are referenced by name (no cross-module import)
                        inp['ref'] = uslug
                        inp.pop('ref_class'), inp.pop('ref_class_path')
                elif form_r < 0.75:
                    inp = {'form': 'name', 'ref': bare}
                else:
                    inp = {'form': 'group_name' if ':' in uslug else 'name', 'ref': uslug}
                if feat['optional_inputs'] and rng.random() < 0.12:
                    inp['optional'] = True
                    inp['default'] = rng.choice([None, 0, 'dflt', [1]])
                    if rng.random() < 0.5 and not rel:
                        inp['in_parameters'] = True
                # access style
                if bare.isidentifier() and bare not in bare_seen and rng.random() < 0.5:
                    inp['access'], inp['arg'] = 'args', bare
                elif bare not in bare_seen and rng.random() < 0.6:
                    inp['access'], inp['registry_key'] = 'registry', rng.choice([bare, uslug])
                elif not inp.get('in_parameters'):
                    inp['access'], inp['index'] = 'index', None   # index filled below
                else:
                    inp['access'], inp['registry_key'] = 'registry', uslug
                inp['_bare'] = bare
                inp['_target_key'] = (j, rel, u['cls'])
                inputs.append(inp)
            # duplicate bare names among inputs make name-based access ambiguous -> index access; duplicates of the same target are dropped
            seen_targets = set()
            final = []
            for inp in inputs:
                if inp['_target_key'] in seen_targets:
                    continue
                seen_targets.add(inp['_target_key'])
                final.append(inp)
            bares = [i['_bare'] for i in final]
            for inp in final:
                if inp.get('optional'):
                    # an absent optional input is registered under its declared name: only the declared spelling (no namespace part)
                    # or the position addresses it whether or not the task exists
                    if inp.get('in_parameters'):
                        inp['access'], inp['registry_key'] = 'registry', inp.get('ref', inp['_bare']) if inp['form'] != 'class' else None
                        if inp['registry_key'] is None:
                            inp['in_parameters'] = False
                        inp.pop('arg', None)
                    if not inp.get('in_parameters'):
                        inp['access'], inp['index'] = 'index', None
                        inp.pop('arg', None)
                if bares.count(inp['_bare']) > 1 or inp['_bare'] in bare_seen:
                    if inp.get('in_parameters'):
                        inp['in_parameters'] = False
                    inp['access'], inp['index'] = 'index', None
                    inp.pop('arg', None)
            # order: Meta.input_tasks entries first (index = position), then InputTaskParameters in `parameters`
            meta_inputs = [i for i in final if not i.get('in_parameters')]
            for pos, inp in enumerate(meta_inputs):
                if inp['access'] == 'index':
                    inp['index'] = pos
            t['inputs'] = meta_inputs + [i for i in final if i.get('in_parameters')]
            for inp in t['inputs']:
                inp.pop('_bare'), inp.pop('_target_key')
            # pattern inputs: `~re` (same namespace) / `~~re` (all namespaces); the regex names the wanted tasks explicitly and allows any group
            # prefix, so that matching on `name` (documentation) and on `group:name` (code) select the same tasks
            if feat.get('patterns') and rng.random() < 0.18:
                taken = {(j_, rel_, u_['cls']) for (j_, rel_, u_) in chosen}
                same_ns = [(j_, rel_, u_) for (j_, rel_, u_) in cands if rel_ == () and (j_, rel_, u_['cls']) not in taken]
                any_ns = [(j_, rel_, u_) for (j_, rel_, u_) in cands if (j_, rel_, u_['cls']) not in taken]
                use_all = mi == 0 and rng.random() < 0.4 and any_ns
                pool = any_ns if use_all else same_ns
                if pool:
                    picks = rng.sample(pool, min(len(pool), rng.choice([1, 2])))
                    bares = sorted({slug_of(u_, pkg, modules[j_]).split(':')[-1] for (j_, _, u_) in picks})
                    explicit_bares = {slug_of(u_, pkg, modules[j_]).split(':')[-1] for (j_, _, u_) in chosen}
                    own = slug_of(t, pkg, m).split(':')[-1]
                    if own not in bares and not (set(bares) & explicit_bares):
                        import re as _re
                        if len(bares) >= 2 and rng.random() < 0.5:
                            # two pattern entries on one task
                            for b in bares:
                                t['inputs'].append({'form': 'pattern_all' if use_all else 'pattern', 'ref': '(.*:)?' + _re.escape(b)})
                        else:
                            t['inputs'].append({'form': 'pattern_all' if use_all else 'pattern', 'ref': '(.*:)?(' + '|'.join(_re.escape(b) for b in bares) + ')'})
                        t['inputs'].sort(key=lambda i: (bool(i.get('in_parameters')), i['form'] in ('pattern', 'pattern_all')))
            # optional input that is really absent
            if feat['optional_inputs'] and (rng.random() < 0.1 or (mi in (spec.get('ns_twin_files') or []) and rng.random() < 0.6)):
                absent = 'absent_task_zz'
                twins_ = spec.get('ns_twin_files') or []
                import re as _re2
                _pats = [i_['ref'] for i_ in t['inputs'] if i_['form'] in ('pattern', 'pattern_all')]

                def _pattern_hit(bare):
                    # a pattern input of this task may deliver a task with that bare name: the short lookup would be ambiguous
                    return any(_re2.fullmatch(p_, bare) for p_ in _pats)
                if mi in twins_ and rng.random() < 0.8:
                    # two different files are mounted under namespaces that are suffix-related (`n`, `a::n`): name a task of the OTHER file
                    oj = twins_[1] if mi == twins_[0] else twins_[0]
                    cand_ = [slug_of(u_, pkg, modules[oj]).split(':')[-1] for u_ in modules[oj]['tasks'] if not u_.get('abstract')]
                    cand_ = [c_ for c_ in cand_ if c_ not in {p_['name'] for p_ in t['params']} and not _pattern_hit(c_)]
                    if cand_:
                        absent = rng.choice(cand_)
                elif rng.random() < 0.5:
                    # the name of a task that exists somewhere in the pipeline (usually not in this task's namespace: then it is absent here)
                    others = [slug_of(u_, pkg, modules[j_]).split(':')[-1] for j_ in range(n_mod) if j_ != mi for u_ in modules[j_]['tasks'] if not u_.get('abstract')]
                    taken_bares = {i_.get('ref', '').split('::')[-1].split(':')[-1] for i_ in t['inputs']} | {i_.get('arg') for i_ in t['inputs']}
                    others = [o_ for o_ in others if o_ not in taken_bares and o_ not in {p_['name'] for p_ in t['params']} and not _pattern_hit(o_)]
                    if others:
                        absent = rng.choice(others)
                t['inputs'].append({'form': 'name', 'ref': absent, 'optional': True, 'default': rng.choice([None, 5, 'd']),
                                    'access': 'registry', 'registry_key': absent, 'in_parameters': rng.random() < 0.5})
                t['inputs'].sort(key=lambda i: bool(i.get('in_parameters')))
                for pos, inp in enumerate([i for i in t['inputs'] if not i.get('in_parameters')]):
                    if inp.get('access') == 'index':
                        inp['index'] = pos
            # a declared input that the run body does not read (read only under a condition that does not hold): it must not be computed
            if feat.get('partial_reads') and rng.random() < 0.35:
                skippable = [i for i, inp in enumerate(t['inputs']) if inp['form'] not in ('pattern', 'pattern_all') and inp.get('access') != 'args'
                             and not inp.get('optional')]
                if skippable and not any(inp['form'] in ('pattern', 'pattern_all') for inp in t['inputs']):
                    skip = rng.choice(skippable)
                    t['reads'] = [i for i in range(len(t['inputs'])) if i != skip]


def gen_root(rng, spec, feat=None, file_index=0):
    """a root (config + context + global vars) instantiating the spec"""
    feat = {**DEFAULT_FEAT, **(feat or {})}
    fname = spec['fnames'][file_index]
    root = {'file': fname}
    f = spec['files'][fname]
    if f.get('multi') and rng.random() < 0.6:
        root['part'] = rng.choice(list(f['parts']))
        root['part_in_path'] = rng.random() < 0.5
    if feat['namespaces'] and rng.random() < 0.2 and spec.get('free_ns_words'):
        root['namespace'] = rng.choice(spec['free_ns_words'])
    if feat['contexts'] and rng.random() < 0.6:
        add_context(rng, spec, root, feat)
    if spec.get('placeholders'):
        root['global_vars'] = {'kind': rng.choice(['dict', 'object']), 'values': {'A': rng.choice(['va', 'vb', '1']), 'DIR': '/data/x', 'B': 'bb',
                                                                                 'CFGROOT': '<LABROOT>'}}
    return root


def param_sites(spec, root=None):
    """all (file, part, name_in_config) that carry a value, for overrides / mutations"""
    out = []
    for fname, f in spec['files'].items():
        for part, pd in f['parts'].items():
            for k in pd.get('values', {}):
                out.append((fname, part, k))
    return out


def same_type_value(rng, v):
    if isinstance(v, bool):
        return not v
    if isinstance(v, int):
        return v + rng.choice([1, 10, -7])
    if isinstance(v, float):
        if rng.random() < 0.45:
            # another float that differs only far behind the decimal point (tolerances, learning rates: 1e-12 vs 1e-13, 0.5 vs 0.50000000000001)
            w = v * 0.1 if 0 < abs(v) < 1e-6 else v + max(abs(v), 1.0) * 1e-14 * rng.choice([1, 3, 7])
            if w != v:
                return w
        return v + 0.5
    if isinstance(v, str) and len(v) > 100:
        m = len(v) // 2
        return v[:m] + ('#' if v[m] != '#' else '%') + v[m + 1:]
    if isinstance(v, str):
        return v + rng.choice(['_ctx', 'c', '2'])
    if isinstance(v, list) and len(v) > 100:
        m = len(v) // 2
        return v[:m] + [same_type_value(rng, v[m])] + v[m + 1:]
    if isinstance(v, list):
        return v + ['ctx']
    if isinstance(v, dict) and 'class' not in v:
        return {**v, 'ctxk': 1}
    if isinstance(v, dict) and 'class' in v and not v['class'].endswith(('LabObjSet', 'LabChainObj')):
        # another object: one constructor argument (never the ignored `verbose`) changed
        kw = dict(v.get('kwargs', {}))
        ks = [k for k in kw if k != 'verbose']
        if not ks:
            return v
        opts = [k for k in ks if k != 'a'] if v['class'].endswith('LabObjVar') else []
        k = rng.choice(opts) if opts else rng.choice(ks)
        kw[k] = same_type_value(rng, kw[k]) if kw[k] is not None else 7
        if v['class'].endswith(('LabObj', 'LabObjSub')) and k == 'b' and kw[k] == 3:
            kw[k] = 4
        return {**v, 'kwargs': kw}
    if v is None:
        return None
    return v


def add_context(rng, spec, root, feat):
    """overrides of existing config values: global entries and per-namespace entries; dict / file / Context / list sources"""
    from .ref import Ref
    r = Ref(spec, {k: v for k, v in root.items() if k != 'context'})
    if r.error is not None or not r.instances:
        return
    insts = list(r.instances.values())
    sites = []
    for inst in insts:
        for k, v in inst['values'].items():
            if not (isinstance(v, dict) and 'class' in v):
                sites.append((inst, k, v))
    if not sites:
        return
    nsrc = rng.choice([1, 1, 2, 3])
    sources = []
    # context files of a further root of the same spec get the same file names in ANOTHER directory (exp_a/override.json, exp_b/override.json)
    cdir = 'ctx' if not spec['context_files'] else f"ctx_{len(spec['context_files'])}"
    for si in range(nsrc):
        data = {}
        long_sites = [x for x in sites if isinstance(x[2], (list, str)) and len(x[2]) > 100]
        for _ in range(rng.randint(1, 3)):
            inst, k, v = rng.choice(long_sites) if long_sites and rng.random() < 0.6 else rng.choice(sites)
            nv = same_type_value(rng, v)
            if inst['ns'] and rng.random() < 0.7:
                data.setdefault('for_namespaces', {}).setdefault('::'.join(inst['ns']), {})[k] = nv
            else:
                data[k] = nv
        # nested context `uses` (with or without ` as ns`): entries of the used context never overlap the using context's own
        if rng.random() < 0.35:
            own_keys = set(data) | {k for d in data.get('for_namespaces', {}).values() for k in d}
            cands = [x for x in sites if x[1] not in own_keys]
            if cands:
                inst, k, v = rng.choice(cands)
                nv = same_type_value(rng, same_type_value(rng, v))
                ufile = f'{cdir}/used{si}.{rng.choice(["json", "yaml"])}'
                ns = inst['ns']
                twins_ = [i2 for i2 in insts if i2 is not inst and i2['ns'] and (i2['file'], i2['part']) == (inst['file'], inst['part']) and k in i2['values']]
                if ns and twins_ and rng.random() < 0.7:
                    # ONE context file mounted twice (`as n1`, `as n2`): both mounts of the config get its value
                    udata = {k: nv}
                    data['uses'] = [{'file': ufile, 'as': '::'.join(ns)}, {'file': ufile, 'as': '::'.join(rng.choice(twins_)['ns'])}]
                elif ns and rng.random() < 0.8:
                    cut = rng.randint(1, len(ns))
                    prefix, rest = ns[:cut], ns[cut:]
                    udata = {'for_namespaces': {'::'.join(rest): {k: nv}}} if rest else {k: nv}
                    data['uses'] = [{'file': ufile, 'as': '::'.join(prefix)}]
                elif ns:
                    udata = {'for_namespaces': {'::'.join(ns): {k: nv}}}
                    data['uses'] = [{'file': ufile}]
                else:
                    udata = {k: nv}
                    data['uses'] = [{'file': ufile}]
                spec['context_files'][ufile] = udata
                # second level: the used context uses another one; namespaces compose
                cands2 = [x for x in sites if x[1] not in own_keys and x[1] != k and x[0]['ns'][:len(data['uses'][0].get('as', '').split('::')) if data['uses'][0].get('as') else 0]
                          == (tuple(data['uses'][0]['as'].split('::')) if data['uses'][0].get('as') else ())]
                if cands2 and rng.random() < 0.5:
                    inst2, k2, v2 = rng.choice(cands2)
                    base = tuple(data['uses'][0]['as'].split('::')) if data['uses'][0].get('as') else ()
                    rest2 = inst2['ns'][len(base):]
                    nv2 = same_type_value(rng, same_type_value(rng, same_type_value(rng, v2)))
                    u2file = f'{cdir}/used{si}b.json'
                    if rest2 and rng.random() < 0.8:
                        cut2 = rng.randint(1, len(rest2))
                        p2, r2 = rest2[:cut2], rest2[cut2:]
                        spec['context_files'][u2file] = {'for_namespaces': {'::'.join(r2): {k2: nv2}}} if r2 else {k2: nv2}
                        udata['uses'] = [{'file': u2file, 'as': '::'.join(p2)}]
                    elif rest2:
                        spec['context_files'][u2file] = {'for_namespaces': {'::'.join(rest2): {k2: nv2}}}
                        udata['uses'] = [{'file': u2file}]
                    else:
                        spec['context_files'][u2file] = {k2: nv2}
                        udata['uses'] = [{'file': u2file}]
        if spec.get('placeholders') and feat.get('ctx_uses_placeholder', True):     # (every root of a spec with placeholders gets global_vars incl. CFGROOT)
            # `uses` paths of contexts written with a placeholder ({CFGROOT}/ctx/used0.json)
            for d_ in [data] + [spec['context_files'][u_['file']] for u_ in data.get('uses', [])]:
                for u_ in d_.get('uses', []):
                    if rng.random() < 0.4:
                        u_['via_placeholder'] = True
        kind = rng.choice(['dict', 'dict', 'file', 'Context'])
        if kind == 'file':
            fname = f'{cdir}/context{si}.{rng.choice(["json", "yaml"])}'
            spec['context_files'][fname] = data
            sources.append({'kind': 'file', 'file': fname, 'as_path': rng.random() < 0.3})
        else:
            sources.append({'kind': kind, 'data': data, 'name': f'ctx{si}'})
    root['context'] = sources
    root['context_single'] = rng.random() < 0.7
    root['context_reuse'] = rng.random() < 0.4
    # contexts that share their first source (a base context reused alone and inside a list) are produced by history.make_variants


# ---- deliberate construction errors ---------------------------------------------------------------------------------

def _concrete_by_module(spec):
    return [(mi, [t for t in m['tasks'] if not t.get('abstract')]) for mi, m in enumerate(spec['modules'])]


def inject_error(rng, spec, kind):
    """mutates spec so that construction must fail; returns a description or None if not applicable"""
    for m_ in spec['modules']:
        # tasks that inherit their declarations from another task's Meta would have to be mutated together with it: left out of error cases
        m_['tasks'] = [t_ for t_ in m_['tasks'] if not t_.get('meta_base')]
    mods = _concrete_by_module(spec)
    pkg = spec['pkg']
    if kind == 'dangling':
        mi, ts = rng.choice([x for x in mods if x[1]])
        t = rng.choice(ts)
        form = rng.choice(['name', 'group_name', 'ns_name'])
        ref = {'name': 'no_such_task_qq', 'group_name': 'g:no_such_task_qq', 'ns_name': 'nons::no_such_task_qq'}[form]
        t['inputs'].insert(0, {'form': 'name', 'ref': ref, 'access': 'registry', 'registry_key': 'no_such_task_qq'})
        for pos, inp in enumerate([i for i in t['inputs'] if not i.get('in_parameters')]):
            if inp.get('access') == 'index':
                inp['index'] = pos
        return f'dangling required input {ref} on {t["cls"]}'
    if kind == 'dangling_class':
        # an input declared by CLASS whose class is not a task of the chain, while another class provides a task of the same short name in a group
        cands = [(mi, ts) for mi, ts in mods if ts]
        mi, ts = rng.choice(cands)
        module = spec['modules'][mi]
        if module.get('package') or any(t_.get('base') in ('ModuleTask', 'DoubleModuleTask') for t_ in ts):
            return None
        mp = '.'.join([pkg, module['name']])
        t = rng.choice(ts)
        ghost = {'cls': 'GhostQq', 'data_kind': 'json_dict', 'params': [], 'inputs': []}
        namesake = {'cls': 'GhostQqHolder', 'meta_name': 'ghost_qq', 'group': rng.choice(['gq', 'gq:hq']), 'data_kind': 'json_dict', 'params': [], 'inputs': []}
        listed = False
        for f_ in spec['files'].values():
            for pd_ in f_['parts'].values():
                decl = pd_.get('tasks') or []
                if decl == [mp + '.*']:
                    pd_['excluded_tasks'] = list(pd_.get('excluded_tasks', [])) + [f'{mp}.GhostQq']
                    listed = True
                elif any(d.startswith(mp + '.') for d in decl):
                    decl.append(f'{mp}.GhostQqHolder')
                    listed = True
        if not listed:
            return None
        module['tasks'] = [ghost, namesake] + module['tasks']
        t['inputs'].insert(0, {'form': 'class', 'ref_class': 'GhostQq', 'ref_class_path': f'{mp}.GhostQq', 'access': 'registry', 'registry_key': 'ghost_qq'})
        for pos, inp in enumerate([i for i in t['inputs'] if not i.get('in_parameters')]):
            if inp.get('access') == 'index':
                inp['index'] = pos
        return f'required input by class GhostQq (not a task of the chain; {namesake["group"]}:ghost_qq of another class exists) on {t["cls"]}'
    if kind in ('selfloop', 'cycle2', 'cycle3'):
        need = {'selfloop': 1, 'cycle2': 2, 'cycle3': 3}[kind]
        cands = [(mi, ts) for mi, ts in mods if len(ts) >= need]
        if not cands:
            return None
        mi, ts = rng.choice(cands)
        chain_ = rng.sample(ts, need)
        module = spec['modules'][mi]
        # edges: chain_[i] depends on chain_[i+1], last depends on first -> cycle; all by (group-qualified) name inside one namespace
        for i, t in enumerate(chain_):
            u = chain_[(i + 1) % need]
            uslug = slug_of(u, pkg, module)
            ref = rng.choice([uslug, uslug.split(':')[-1]])
            t['inputs'] = [x for x in t['inputs'] if not x.get('in_parameters')] + [x for x in t['inputs'] if x.get('in_parameters')]
            t['inputs'].insert(0, {'form': 'name', 'ref': ref, 'access': 'index', 'index': 0, 'cyc': True})
            for pos, inp in enumerate([x for x in t['inputs'] if not x.get('in_parameters')]):
                if inp.get('access') == 'index':
                    inp['index'] = pos
        return f'{kind} among {[t["cls"] for t in chain_]}'
    if kind == 'missing_param':
        sites = []
        for mi, ts in mods:
            for t in ts:
                for p in t['params']:
                    if 'default' not in p:
                        sites.append((mi, t, p))
        if not sites:
            return None
        mi, t, p = rng.choice(sites)
        nic = p.get('name_in_config') or p['name']
        for f in spec['files'].values():
            for pd in f['parts'].values():
                pd.get('values', {}).pop(nic, None)
        return f'required parameter {nic} of {t["cls"]} removed from every config'
    if kind == 'dtype':
        sites = []
        for mi, ts in mods:
            for t in ts:
                for p in t['params']:
                    if p.get('dtype') in ('int', 'dict', 'list', 'float', 'bool'):
                        sites.append((mi, t, p))
        if not sites:
            return None
        mi, t, p = rng.choice(sites)
        nic = p.get('name_in_config') or p['name']
        bad = {'int': 'not-an-int', 'float': 'not-a-float', 'dict': ['a', 'list'], 'list': {'a': 'dict'}, 'bool': 'not-a-bool'}[p['dtype']]
        if p['dtype'] in ('int', 'bool') and rng.random() < 0.6 and not p.get('drop_default'):
            # a value of the wrong type that compares EQUAL to the parameter's default (1.0 for an int default 1, 0 for a bool default False)
            if not isinstance(p.get('default'), (int, bool)) or isinstance(p.get('default'), bool) != (p['dtype'] == 'bool'):
                p['default'] = rng.choice([1, 2, 7]) if p['dtype'] == 'int' else rng.choice([False, True])
            bad = float(p['default']) if p['dtype'] == 'int' else int(p['default'])
        fname = spec['fnames'][mi]
        for pd in spec['files'][fname]['parts'].values():
            pd.setdefault('values', {})[nic] = bad
        return f'parameter {nic} of {t["cls"]} ({p["dtype"]}) set to {bad!r}'
    if kind == 'conflict':
        # file k uses file j without namespace; j also declares one of k's tasks
        for fname, f in spec['files'].items():
            for part, pd in f['parts'].items():
                for u in pd.get('uses', []):
                    if not u.get('as') and u.get('file') and u['file'] != fname and fname in spec['fnames']:
                        own = [s for s in pd.get('tasks', [])]
                        k = spec['fnames'].index(fname)
                        ts = [t for t in spec['modules'][k]['tasks'] if not t.get('abstract')]
                        if not ts:
                            continue
                        m = spec['modules'][k]
                        mp = '.'.join([pkg] + ([m['package']] if m.get('package') else []) + [m['name']])
                        t = rng.choice(ts)
                        excl = set(pd.get('excluded_tasks', []))
                        if f'{mp}.{t["cls"]}' in excl:
                            continue
                        for upd in spec['files'][u['file']]['parts'].values():
                            upd['tasks'] = list(upd.get('tasks', [])) + [f'{mp}.{t["cls"]}']
                        ufile = u['file']
                        if rng.random() < 0.5 and ufile in spec['fnames']:
                            # the two conflicting configs have the same file name (in different directories): still two configs
                            from .rewrite import _rename_file
                            same = 'elsewhere/' + fname.split('/')[-1].rsplit('.', 1)[0] + '.' + ufile.rsplit('.', 1)[1]
                            if same not in spec['files']:
                                _rename_file(spec, ufile, same)
                                ufile = same
                        return f'{t["cls"]} declared by {fname} and by {ufile} in the same namespace'
        return None
    raise ValueError(kind)


# ---- directed family: one pipeline mounted under two namespaces and consumed from both (train/valid pattern) ---------------

def namesake_spec(rng, feat=None):
    """-> (spec, roots): tasks called like the GROUP of their inputs (`dataset` <- `dataset:train`, `dataset:test`) and like the NAMESPACE of their
    input (`stats` <- `stats::count`); inputs are run arguments, so they are computed while the dependant's own run has already been announced"""
    feat = {**DEFAULT_FEAT, **(feat or {})}
    pkg = 'labn_' + ''.join(rng.choice('abcdefghijklmnop') for _ in range(8))
    kinds = [k for k in feat['data_kinds'] if k not in ('dir_link', 'figure')]
    tr = {'cls': 'Train', 'group': 'dataset', 'data_kind': rng.choice(kinds), 'params': [{'name': 'p', 'access': rng.choice(['args', None])}], 'inputs': []}
    te = {'cls': 'Test', 'group': 'dataset', 'data_kind': rng.choice(kinds), 'params': [], 'inputs': []}
    acc = rng.choice(['args', 'index'])
    ds = {'cls': 'Dataset', 'data_kind': rng.choice(kinds), 'params': [], 'inputs': [
        dict({'form': 'class', 'ref_class': 'Train', 'ref_class_path': f'{pkg}.pipe.Train'}, **({'access': 'args', 'arg': 'train'} if acc == 'args' else {'access': 'index', 'index': 0})),
        dict({'form': 'class', 'ref_class': 'Test', 'ref_class_path': f'{pkg}.pipe.Test'}, **({'access': 'args', 'arg': 'test'} if acc == 'args' else {'access': 'index', 'index': 1}))]}
    cnt = {'cls': 'Count', 'data_kind': rng.choice(kinds), 'params': [{'name': 'q', 'default': 1}], 'inputs': []}
    st = {'cls': 'Stats', 'data_kind': rng.choice(kinds), 'params': [], 'inputs': [
        {'form': 'ns_name', 'ref': 'stats::count', 'access': 'index', 'index': 0},
        {'form': 'class', 'ref_class': 'Dataset', 'ref_class_path': f'{pkg}.pipe.Dataset', 'access': 'index', 'index': 1}]}
    v0 = rng.choice([1, 'a', [1, 2]])
    spec = {'pkg': pkg, 'modules': [{'name': 'pipe', 'package': None, 'tasks': [tr, te, ds, st]}, {'name': 'sub', 'package': None, 'tasks': [cnt]}],
            'files': {'cfg/sub.json': {'parts': {'': {'tasks': [f'{pkg}.sub.*'], 'values': {'q': 2}, 'uses': []}}},
                      'cfg/top.yaml': {'parts': {'': {'tasks': [f'{pkg}.pipe.*'], 'values': {'p': v0}, 'uses': [{'file': 'cfg/sub.json', 'as': 'stats'}]}}}},
            'context_files': {}, 'placeholders': None, 'fnames': ['cfg/top.yaml', 'cfg/sub.json'], 'free_ns_words': ['m', 'ab'], 'extra_mounts': []}
    roots = [{'file': 'cfg/top.yaml'},
             {'file': 'cfg/top.yaml', 'context': [{'kind': 'dict', 'data': {'p': same_type_value(rng, v0)}}], 'context_single': True},
             {'file': 'cfg/top.yaml', 'context': [{'kind': 'dict', 'data': {'for_namespaces': {'stats': {'q': 5}}}}], 'context_single': True}]
    rng.shuffle(roots)
    return spec, roots[:rng.randint(1, 3)]


def repeated_ns_spec(rng):
    """-> (spec, root): a namespace word REPEATED along a mount path (W::W::leaf next to W::leaf) and contexts addressing `W::leaf` either
    from the root (absolute) or from a context mounted `as W` (relative: W::W::leaf). No task names an input, so the only question is which
    instance gets which override."""
    pkg = 'labr_' + ''.join(rng.choice('abcdefghijklmnop') for _ in range(8))
    w = rng.choice(['base', 'n', 'tr', 'train'])
    leaf = {'cls': 'Leaf', 'data_kind': 'json_dict', 'params': [{'name': 'p', 'access': rng.choice(['args', None])}], 'inputs': []}
    mid = {'cls': 'Mid', 'data_kind': 'json_dict', 'params': [{'name': 'q', 'default': 1}], 'inputs': []}
    v0 = rng.choice([1, 'a', [1, 2], {'k': 1}])
    v1 = same_type_value(rng, v0)
    v2 = same_type_value(rng, v1)
    files = {
        'cfg/leaf.json': {'parts': {'': {'tasks': [f'{pkg}.leafm.*'], 'values': {'p': v0}, 'uses': []}}},
        'cfg/b.yaml': {'parts': {'': {'tasks': [f'{pkg}.midm.*'], 'values': {'q': 2}, 'uses': [{'file': 'cfg/leaf.json', 'as': 'leaf'}]}}},
        'cfg/a.json': {'parts': {'': {'tasks': [], 'values': {}, 'uses': [{'file': 'cfg/b.yaml', 'as': w}, {'file': 'cfg/leaf.json', 'as': 'leaf'}]}}},
        'cfg/top.json': {'parts': {'': {'tasks': [], 'values': {}, 'uses': [{'file': 'cfg/a.json', 'as': w}]}}},
    }
    spec = {'pkg': pkg, 'modules': [{'name': 'leafm', 'package': None, 'tasks': [leaf]}, {'name': 'midm', 'package': None, 'tasks': [mid]}],
            'files': files, 'context_files': {}, 'placeholders': None, 'fnames': ['cfg/top.json', 'cfg/a.json', 'cfg/b.yaml', 'cfg/leaf.json'],
            'free_ns_words': ['m', 'ab'], 'extra_mounts': [(1, 3, 'leaf')]}
    how = rng.choice(['absolute', 'mounted', 'both', 'deep'])
    sources = []
    if how in ('absolute', 'both'):
        sources.append({'kind': rng.choice(['dict', 'Context']), 'data': {'for_namespaces': {f'{w}::leaf': {'p': v1}}}, 'name': 'abs'})
    if how in ('mounted', 'both'):
        spec['context_files']['ctx/u.json'] = {'for_namespaces': {f'{w}::leaf': {'p': v2}}}
        sources.append({'kind': rng.choice(['dict', 'Context']), 'data': {'uses': [{'file': 'ctx/u.json', 'as': w}]}, 'name': 'mnt'})
    if how == 'deep':
        spec['context_files']['ctx/u.json'] = {'for_namespaces': {f'{w}::{w}::leaf': {'p': v2}, f'{w}': {'q': 7}}}
        sources.append({'kind': 'dict', 'data': {'for_namespaces': {f'{w}::{w}': {'q': 5}}, 'uses': [{'file': 'ctx/u.json'}]}, 'name': 'deep'})
    root = {'file': 'cfg/top.json', 'context': sources, 'context_single': len(sources) == 1 and rng.random() < 0.5}
    return spec, root


def parts_spec(rng, feat=None):
    """-> (spec, roots): ONE multi-config file whose parts declare the same task classes with different values (`#small`, `#big`, ...);
    every part is a configuration of its own (members of a MultiChain, in parameter mode and in name mode)"""
    feat = {**DEFAULT_FEAT, **(feat or {})}
    pkg = 'labq_' + ''.join(rng.choice('abcdefghijklmnop') for _ in range(8))
    kinds = [k for k in feat['data_kinds'] if k not in ('dir_link', 'figure')]
    load = {'cls': 'Load', 'data_kind': rng.choice(kinds), 'params': [{'name': 'rows', 'access': rng.choice(['args', None])}], 'inputs': []}
    grp = rng.choice([None, 'g'])
    if grp:
        load['group'] = grp
    agg = {'cls': 'Agg', 'data_kind': rng.choice(kinds), 'params': [{'name': 'w', 'default': 1}],
           'inputs': [{'form': 'class', 'ref_class': 'Load', 'ref_class_path': f'{pkg}.pipe.Load', 'access': 'index', 'index': 0}]}
    tasks = [load, agg]
    if rng.random() < 0.5:
        tasks.append({'cls': 'Side', 'data_kind': rng.choice(kinds), 'params': [{'name': 'w', 'default': 1}], 'inputs': []})
    pnames = rng.sample(['small', 'big', 'v2', 'alt', 'x'], rng.randint(2, 4))
    v = rng.choice([3, 'a', [1, 2]])
    parts = {}
    for i, pn in enumerate(pnames):
        vals = {'rows': v}
        if rng.random() < 0.5:
            vals['w'] = rng.choice([1, 2, 3])
        parts[pn] = {'tasks': [f'{pkg}.pipe.*'], 'values': vals, 'uses': []}
        if i == 0:
            parts[pn]['main_part'] = True
        v = same_type_value(rng, v) if rng.random() < 0.8 else v       # (sometimes two parts are the same computation)
    fname = 'cfg/pipeline.' + rng.choice(['yaml', 'json'])
    if (feat or {}).get('composing_part'):
        # one more part that declares nothing itself and mounts every other part of its own file under the part's name
        parts['all'] = {'tasks': [], 'values': {}, 'uses': [{'part': pn, 'as': pn} for pn in pnames]}
    spec = {'pkg': pkg, 'modules': [{'name': 'pipe', 'package': None, 'tasks': tasks}],
            'files': {fname: {'multi': True, 'parts': parts}},
            'context_files': {}, 'placeholders': None, 'fnames': [fname], 'free_ns_words': ['m', 'ab'], 'extra_mounts': []}
    roots = [{'file': fname, 'part': pn} for pn in pnames]
    rng.shuffle(roots)
    return spec, roots


def twin_spec(rng, feat=None):
    """-> (spec, roots): roots differ only in which mount gets which value (incl. the swapped assignment)"""
    feat = {**DEFAULT_FEAT, **(feat or {})}
    pkg = 'labt_' + ''.join(rng.choice('abcdefghijklmnop') for _ in range(8))
    n1, n2 = rng.sample(['train', 'valid', 'n', 'xn', 'tr', 'test'], 2)
    kinds = feat['data_kinds']
    grp = rng.choice([None, 'g', 'g:h'])
    x = {'cls': 'Dataset', 'data_kind': rng.choice(kinds), 'params': [{'name': 'p', 'access': rng.choice(['args', None])},
                                                                       {'name': 'noise', 'default': 0, 'ignore': True}], 'inputs': []}
    if grp:
        x['group'] = grp
    up_tasks = [x]
    xslug = (grp + ':' if grp else '') + 'dataset'
    target, tslug = x, xslug
    if rng.random() < 0.5:
        y = {'cls': 'Features', 'data_kind': rng.choice(kinds), 'params': [{'name': 'dim', 'default': 3}],
             'inputs': [{'form': 'class', 'ref_class': 'Dataset', 'ref_class_path': f'{pkg}.up.Dataset', 'access': 'index', 'index': 0}]}
        up_tasks.append(y)
        if rng.random() < 0.7:
            target, tslug = y, 'features'
    bare = tslug.split(':')[-1]
    t_inputs = [{'form': 'ns_name', 'ref': f'{n1}::{rng.choice([tslug, bare])}', 'access': 'index', 'index': 0},
                {'form': 'ns_name', 'ref': f'{n2}::{rng.choice([tslug, bare])}', 'access': 'index', 'index': 1}]
    if rng.random() < 0.5:
        t_inputs.reverse()
        t_inputs[0]['index'], t_inputs[1]['index'] = 0, 1
    t = {'cls': 'Model', 'data_kind': rng.choice(kinds), 'params': [{'name': 'lr', 'default': 0.5}], 'inputs': t_inputs}
    top_tasks = [t]
    if rng.random() < 0.5:
        top_tasks.append({'cls': 'Report', 'data_kind': rng.choice(kinds), 'params': [],
                          'inputs': [{'form': 'class', 'ref_class': 'Model', 'ref_class_path': f'{pkg}.top.Model', 'access': 'index', 'index': 0}]})
    v0 = rng.choice([1, 'a', [1, 2], {'k': 1}, 2.5])
    spec = {'pkg': pkg, 'modules': [{'name': 'up', 'package': None, 'tasks': up_tasks}, {'name': 'top', 'package': None, 'tasks': top_tasks}],
            'files': {'cfg/up.json': {'parts': {'': {'tasks': [f'{pkg}.up.*'], 'values': {'p': v0}, 'uses': []}}},
                      'cfg/top.yaml': {'parts': {'': {'tasks': [f'{pkg}.top.*'], 'values': {},
                                                      'uses': [{'file': 'cfg/up.json', 'as': n1}, {'file': 'cfg/up.json', 'as': n2}]}}}},
            'context_files': {}, 'placeholders': None, 'fnames': ['cfg/top.yaml', 'cfg/up.json'], 'free_ns_words': ['m', 'ab'], 'extra_mounts': [(0, 1, n2)]}
    a = same_type_value(rng, v0)
    b = same_type_value(rng, a)
    roots = []
    for (va, vb) in ((a, b), (b, a), (a, a)):
        roots.append({'file': 'cfg/top.yaml', 'context': [{'kind': 'dict', 'data': {'for_namespaces': {n1: {'p': va}, n2: {'p': vb}}}}], 'context_single': True})
    roots.append({'file': 'cfg/top.yaml'})
    if rng.random() < 0.5:
        roots.append({'file': 'cfg/up.json', 'context': [{'kind': 'dict', 'data': {'p': a}}], 'context_single': True})
    rng.shuffle(roots)
    return spec, roots
