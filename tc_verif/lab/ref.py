"""Reference model of a LabSpec: instances, tasks, edges, effective parameters, keys, paths, value digests.

Independent of taskchain (shares only the harness' own canonical forms and value encoding with the runtime).
Semantics: DESIGN.md Appendix A.
"""
from __future__ import annotations

import copy
import re
from collections import OrderedDict

from .. import refscheme
from . import runtime as rt

NO_DEFAULT = '<<NO_DEFAULT>>'


class RefError(Exception):
    """construction is expected to fail"""

    def __init__(self, kind, msg):
        super().__init__(msg)
        self.kind = kind


def snake(cls_name):
    name = re.sub(r'(?<!^)(?=[A-Z])', '_', cls_name).lower()
    return name[:-5] if name.endswith('_task') else name


def subst_text(s, gv):
    if gv is None:
        return s
    return re.sub(r'\{([^{}]*)\}', lambda m: str(gv[m.group(1)]) if m.group(1) in gv else m.group(0), s)


def subst(v, gv):
    if isinstance(v, str):
        return subst_text(v, gv)
    if isinstance(v, list):
        return [subst(x, gv) for x in v]
    if isinstance(v, dict):
        return {k: subst(x, gv) for k, x in v.items()}
    return v


def pcanon_cfg(v):
    """pcanon of a *configured* value (placeholder form); must agree with runtime.pcanon on the live value."""
    from ..canon import tcanon
    import json
    if refscheme.is_objdef(v):
        name = v['class'].split('.')[-1]
        kw = v.get('kwargs', {})
        if name in ('LabObj', 'LabObjSub'):
            d = {'a': pcanon_cfg(kw['a'])}
            if 'b' in kw and kw['b'] != 3:
                d['b'] = pcanon_cfg(kw['b'])
            if name == 'LabObjSub':
                d['limit'] = pcanon_cfg(kw.get('limit', 10))
            return ['obj', name, d]
        if name == 'LabObjSet':
            return ['obj', 'LabObjSet', {'tags': sorted(kw['tags'])}]
        if name == 'LabObjDerived':
            return ['obj', 'LabObjDerived', {'root': pcanon_cfg(kw['root'])}]
        if name == 'LabObjVar':
            return ['obj', 'LabObjVar', {'a': pcanon_cfg(kw['a']), 'options': pcanon_cfg({k: x for k, x in kw.items() if k not in ('a', 'shape')}),
                                         'shape': pcanon_cfg(list(kw.get('shape', (4, 3))))}]
        if name == 'LabChainObj':
            return ['obj', 'LabChainObj', {'a': pcanon_cfg(kw['a']), 'inited': True, 'saw_tasks': True}]
        return ['obj', name, {'x': pcanon_cfg(kw['x'])}]
    if isinstance(v, tuple) and v and v[0] == 'path':
        return ['p', v[1]] if v[1] is not None else ['N']
    if isinstance(v, str):
        return ['s', v]
    if isinstance(v, list):
        return ['l', [pcanon_cfg(x) for x in v]]
    if isinstance(v, dict):
        return ['d', sorted([[k, pcanon_cfg(x)] for k, x in v.items()], key=lambda kv: json.dumps(kv[0]))]
    return tcanon(v)


def received_cfg(v, gv):
    """received_canon of what run must receive for configured value v."""
    from ..canon import tcanon
    import json
    if refscheme.is_objdef(v):
        name = v['class'].split('.')[-1]
        kw = v.get('kwargs', {})
        if name == 'LabObjSub':
            return ['obj', 'LabObjSub', {'a': received_cfg(kw['a'], gv), 'b': received_cfg(kw.get('b', 3), gv),
                                         'verbose': received_cfg(kw.get('verbose', False), gv), 'limit': received_cfg(kw.get('limit', 10), gv)}]
        if name == 'LabObj':
            return ['obj', 'LabObj', {'a': received_cfg(kw['a'], gv), 'b': received_cfg(kw.get('b', 3), gv),
                                      'verbose': received_cfg(kw.get('verbose', False), gv)}]
        if name == 'LabObjSet':
            return ['obj', 'LabObjSet', {'tags': sorted(kw['tags'])}]
        if name == 'LabObjDerived':
            return ['obj', 'LabObjDerived', {'root': received_cfg(kw['root'], gv)}]
        if name == 'LabObjVar':
            return ['obj', 'LabObjVar', {'a': received_cfg(kw['a'], gv), 'options': received_cfg({k: x for k, x in kw.items() if k not in ('a', 'shape')}, gv),
                                         'shape': received_cfg(list(kw.get('shape', (4, 3))), gv)}]
        if name == 'LabChainObj':
            return ['obj', 'LabChainObj', {'a': received_cfg(kw['a'], gv), 'inited': True, 'saw_tasks': True, 'chain_usable_now': True}]
        return ['obj', name, {'x': received_cfg(kw['x'], gv)}]
    if isinstance(v, tuple) and v and v[0] == 'path':
        # (what run receives is a Path: `a//b`, `a/./b`, a trailing slash are spelled the way pathlib spells them)
        import pathlib
        return ['p', str(pathlib.PurePosixPath(subst_text(v[1], gv)))] if v[1] is not None else ['N']
    if isinstance(v, str):
        return ['s', subst_text(v, gv)]
    if isinstance(v, list):
        return ['l', [received_cfg(x, gv) for x in v]]
    if isinstance(v, dict):
        return ['d', sorted([[k, received_cfg(x, gv)] for k, x in v.items()], key=lambda kv: json.dumps(kv[0]))]
    return tcanon(v)


class Ref:
    def __init__(self, spec, root, parameter_mode=True):
        if root.get('file_state'):
            # config files rewritten in place before this chain is built: what counts is the content at that moment
            spec = dict(spec, files={**spec['files'], **root['file_state']})
        self.spec = spec
        self.root = root
        self.parameter_mode = parameter_mode
        self.gv = (root.get('global_vars') or {}).get('values') if root.get('global_vars') else None
        self.classes = {}            # import path -> task spec (+module info)
        self.module_classes = {}     # module import path -> [task spec in definition order]
        for m in spec['modules']:
            mod_path = '.'.join([spec['pkg']] + ([m['package']] if m.get('package') else []) + [m['name']])
            self.module_classes[mod_path] = []
            for ts in m['tasks']:
                info = dict(ts, module=m['name'], package=m.get('package'), mod_path=mod_path)
                self.classes[f'{mod_path}.{ts["cls"]}'] = info
                self.module_classes[mod_path].append(info)
        self.error = None
        self.instances = OrderedDict()
        self.tasks = OrderedDict()   # full name -> task record
        try:
            self._context()
            self._instances()
            self._tasks()
            self._inputs()
            self._cycles()
            self._params()
            self._keys()
        except RefError as e:
            self.error = e

    # ---- contexts ------------------------------------------------------------------------------------------------
    def _context(self):
        self.ctx_global, self.ctx_ns = {}, {}
        self.has_context = bool(self.root.get('context'))
        for src in self.root.get('context') or []:
            g, n = self._context_source(src, ())
            self.ctx_global.update(g)
            for k, v in n.items():
                self.ctx_ns.setdefault(k, {}).update(v)

    def _context_source(self, src, ns):
        """-> (global entries, {namespace string: entries}) of one context source mounted at namespace path ns"""
        data = src['data'] if src['kind'] != 'file' else self.spec['context_files'][src['file']]
        data = copy.deepcopy(data)
        uses = data.pop('uses', [])
        for_ns = data.pop('for_namespaces', {})
        g, n = {}, {}
        if ns:
            n['::'.join(ns)] = dict(data)
        else:
            g = dict(data)
        for k, v in for_ns.items():
            n.setdefault('::'.join(ns + tuple(k.split('::'))), {}).update(v)
        if isinstance(uses, str):
            uses = [uses]
        for u in uses:
            sub_ns = ns + (tuple(u['as'].split('::')) if u.get('as') else ())
            ug, un = self._context_source({'kind': 'file', 'file': u['file']}, sub_ns)
            g.update(ug)
            for k, v in un.items():
                n.setdefault(k, {}).update(v)
        return g, n

    # ---- config instances ----------------------------------------------------------------------------------------
    def _part(self, file, part):
        f = self.spec['files'][file]
        if not f.get('multi'):
            return None, f['parts']['']
        if part is None:
            mains = [p for p, d in f['parts'].items() if d.get('main_part')]
            if len(mains) != 1:
                raise RefError('config', f'no unique main part in {file}')
            part = mains[0]
        if part not in f['parts']:
            raise RefError('config', f'part {part} not in {file}')
        return part, f['parts'][part]

    def _instances(self):
        root_ns = tuple(self.root['namespace'].split('::')) if self.root.get('namespace') else ()

        def visit(ns, file, part):
            part, pdata = self._part(file, part)
            key = (ns, file, part)
            if key in self.instances:
                return
            eff = copy.deepcopy(pdata.get('values', {}))
            eff.update(copy.deepcopy(self.ctx_global))
            if ns:
                eff.update(copy.deepcopy(self.ctx_ns.get('::'.join(ns), {})))
            inst = {'ns': ns, 'file': file, 'part': part, 'values': eff, 'tasks': pdata.get('tasks', []),
                    'excluded': pdata.get('excluded_tasks', []), 'name': self._config_name(file, part)}
            self.instances[key] = inst
            for u in pdata.get('uses', []):
                ufile = u['file'] if u.get('file') else file   # '#part' reference inside a multi-config file
                visit(ns + (tuple(u['as'].split('::')) if u.get('as') else ()), ufile, u.get('part'))

        visit(root_ns, self.root['file'], self.root.get('part'))
        if self.root.get('config_name'):
            # the caller named the root config explicitly: that name (not the file stem) is its name, e.g. for name-mode file names
            rinst = next(iter(self.instances.values()))
            rinst['name'] = self.root['config_name'] + (f"#{rinst['part']}" if rinst['part'] else '')

    @staticmethod
    def _config_name(file, part):
        base = file.split('/')[-1].rsplit('.', 1)[0]
        return f'{base}#{part}' if part else base

    # ---- tasks ---------------------------------------------------------------------------------------------------
    def _resolve_import(self, s):
        if s.endswith('.*'):
            mod = s[:-2]
            if mod not in self.module_classes:
                raise RefError('import', f'no module {mod}')
            return list(self.module_classes[mod])
        if s not in self.classes:
            raise RefError('import', f'no class {s}')
        return [self.classes[s]]

    @staticmethod
    def slug_of(ts):
        name = ts.get('meta_name') or snake(ts['cls'])
        base = ts.get('base_kind', ts.get('base', 'Task'))
        if base == 'ModuleTask':
            group = ts['module']
        elif base == 'DoubleModuleTask':
            group = ts['group'] if ts.get('explicit_group') else ':'.join(([ts['package']] if ts.get('package') else [ts['pkg_last']]) + [ts['module']])
        else:
            group = ts.get('group') or ''
        return f'{group}:{name}' if group else name

    def _tasks(self):
        for key, inst in self.instances.items():
            excluded = set()
            for s in inst['excluded']:
                for ts in self._resolve_import(s):
                    excluded.add(ts['mod_path'] + '.' + ts['cls'])
            for s in inst['tasks']:
                for ts in self._resolve_import(s):
                    if ts.get('abstract'):
                        continue
                    if ts['mod_path'] + '.' + ts['cls'] in excluded:
                        continue
                    ts = dict(ts, pkg_last=self.spec['pkg'].split('.')[-1])
                    slug = self.slug_of(ts)
                    full = '::'.join(inst['ns'] + (slug,))
                    if full in self.tasks:
                        if self.tasks[full]['inst'] is not inst:
                            raise RefError('conflict', f'task {full} declared by two configs in one namespace')
                        continue
                    self.tasks[full] = {'full': full, 'slug': slug, 'spec': ts, 'inst': inst, 'ns': inst['ns'], 'inputs': OrderedDict(),
                                        'explicit': [], 'pattern_targets': []}

    # ---- inputs --------------------------------------------------------------------------------------------------
    def _candidates(self, ns, ref):
        parts = ref.split('::')
        ref_ns = tuple(parts[:-1])
        g = parts[-1].split(':')
        group, name = tuple(g[:-1]), g[-1]
        target_ns = ns + ref_ns
        out = []
        for full, t in self.tasks.items():
            if t['ns'] != target_ns:
                continue
            tg = t['slug'].split(':')
            if tg[-1] != name:
                continue
            if group and tuple(tg[:-1]) != group:
                continue
            out.append(full)
        return out

    def _inputs(self):
        for full, t in self.tasks.items():
            ts = t['spec']
            seen = set()
            pattern_specs = []
            for inp in ts.get('inputs', []):
                if inp['form'] in ('pattern', 'pattern_all'):
                    pattern_specs.append(inp)
                    continue
                ref = self.slug_of(dict(self.classes[inp['ref_class_path']], pkg_last=self.spec['pkg'].split('.')[-1])) if inp['form'] == 'class' else inp['ref']
                cands = self._candidates(t['ns'], ref)
                target = None
                if inp['form'] == 'class':
                    # a reference by class names THAT class's task (its full name in the declaring task's namespace), never a namesake of another class
                    exact = [c for c in cands if self.tasks[c]['slug'] == ref]
                    if cands and not exact and inp.get('optional'):
                        raise RefError('dont_care', f'{full}: optional input by class {ref} is absent while namesakes {cands} exist')
                    cands = exact
                if len(cands) == 1:
                    target = cands[0]
                elif len(cands) > 1:
                    # several matches: the C10 rule decides (less nested form of all others wins, else ambiguous)
                    from ..props.c10 import strict_le, liberal_le, parse
                    win = [c for c in cands if all(strict_le(c, o) for o in cands)]
                    if win:
                        target = win[0]
                    elif any(all(liberal_le(parse(c), parse(o)) for o in cands) for c in cands):
                        raise RefError('dont_care', f'{full}: input {ref} has a winner only under the liberal reading: {cands}')
                    else:
                        raise RefError('ambiguous_input', f'{full}: input {ref} matches {cands}')
                if target is None:
                    if inp.get('optional'):
                        t['explicit'].append(('default', inp['default']))
                        continue
                    raise RefError('missing_input', f'{full}: input {ref} not found')
                # the same task referenced under two spellings is one input (the registry is keyed by the resolved name)
                if target not in seen:
                    seen.add(target)
                    t['inputs'][target] = inp
                t['explicit'].append(('task', target))
            for inp in pattern_specs:
                rx = inp['ref']
                for cand, ct in self.tasks.items():
                    if inp['form'] == 'pattern' and ct['ns'] != t['ns']:
                        continue
                    if re.fullmatch(rx, ct['slug'].split(':')[-1]) and cand != full:
                        if cand in seen:
                            raise RefError('dont_care', f'{full}: pattern input {cand} also declared explicitly')
                        seen.add(cand)
                        t['inputs'][cand] = inp
                        t['pattern_targets'].append(cand)

    def _cycles(self):
        state = {}

        def dfs(n):
            state[n] = 1
            for m in self.tasks[n]['inputs']:
                if state.get(m) == 1:
                    raise RefError('cycle', f'cycle through {n} -> {m}')
                if m not in state:
                    dfs(m)
            state[n] = 2
        for n in self.tasks:
            if n not in state:
                dfs(n)

    # ---- parameters ----------------------------------------------------------------------------------------------
    def _params(self):
        for full, t in self.tasks.items():
            eff = t['inst']['values']
            t['params'], t['persisted'], t['received'] = {}, {}, {}
            for p in t['spec'].get('params', []):
                nic = p.get('name_in_config') or p['name']
                from_default = False
                if nic in eff:
                    v = eff[nic]
                elif 'default' in p:
                    v = p['default']
                    from_default = True     # defaults are not part of config data: no placeholder substitution
                else:
                    raise RefError('missing_param', f'{full}: parameter {p["name"]} ({nic}) has no value')
                dt = p.get('dtype')
                if dt and v is not None:
                    py = {'int': int, 'str': str, 'float': float, 'bool': bool, 'list': list, 'dict': dict}.get(dt)
                    if dt == 'Path':
                        if not isinstance(v, str):
                            raise RefError('dtype', f'{full}: {p["name"]} not a path')
                        v = ('path', v)
                    elif not isinstance(v, py):
                        raise RefError('dtype', f'{full}: {p["name"]}={v!r} is not {dt}')
                t['params'][p['name']] = v
                t['received'][p['name']] = received_cfg(v, None if from_default else self.gv)
                if p.get('ignore'):
                    continue
                if p.get('drop_default') and 'default' in p and self._eq_default(v, p['default']):
                    continue
                t['persisted'][p['name']] = v

    @staticmethod
    def _eq_default(v, d):
        if isinstance(v, tuple) and v and v[0] == 'path':
            return v[1] == d
        return v == d

    # ---- keys, paths, digests ------------------------------------------------------------------------------------
    def _keys(self):
        done = {}

        def visit(full):
            if full in done:
                return
            t = self.tasks[full]
            for m in t['inputs']:
                visit(m)
            ns_str = '::'.join(t['ns']) if t['ns'] else None
            if self.parameter_mode:
                t['key'] = refscheme.key(t['persisted'], {m: self.tasks[m]['key'] for m in t['inputs']}, ns_str, gv_active=self.gv is not None and not t.get('_defaults_only'))
            else:
                t['key'] = t['inst']['name']
            kind = t['spec']['data_kind']
            t['rel_path'] = refscheme.rel_path(t['slug'], t['key'], kind)
            reads = t['spec'].get('reads')
            explicit = []
            ei = 0
            for i, inp in enumerate(ts_inputs := [x for x in t['spec'].get('inputs', [])]):
                if inp['form'] in ('pattern', 'pattern_all'):
                    continue
                what, target = t['explicit'][ei]
                ei += 1
                if reads is not None and i not in reads:
                    explicit.append(None)
                elif what == 'task':
                    explicit.append(self.tasks[target]['vdigest'])
                else:
                    explicit.append(rt.H(__import__('tc_verif.canon', fromlist=['tcanon']).tcanon(target)))
            all_d = []
            if any(x['form'] in ('pattern', 'pattern_all') for x in ts_inputs):
                all_d = [self.tasks[m]['vdigest'] for m in t['inputs']]
            # order in which a run pulls its inputs: run arguments are evaluated before the body starts, the body reads the rest in declaration order
            expl_specs = [x for x in ts_inputs if x['form'] not in ('pattern', 'pattern_all')]
            order = [i for i, x in enumerate(expl_specs) if x.get('access') == 'args'] + [i for i, x in enumerate(expl_specs) if x.get('access') != 'args']
            t['read_targets'] = []
            for i in order:
                (what, target), e = t['explicit'][i], explicit[i]
                if what == 'task' and e is not None and target not in t['read_targets']:
                    t['read_targets'].append(target)
            # inputs that are run ARGUMENTS are evaluated before the run body starts (if one of them fails, the run never starts)
            t['arg_targets'] = []
            for i in order:
                (what, target) = t['explicit'][i]
                if expl_specs[i].get('access') == 'args' and what == 'task' and explicit[i] is not None and target not in t['arg_targets']:
                    t['arg_targets'].append(target)
            if all_d:
                t['read_targets'] = t['arg_targets'] + [m for m in t['inputs'] if m not in t['arg_targets']]
            t['h'] = rt.descriptor_hash(t['slug'], {k: pcanon_cfg(v) for k, v in t['persisted'].items()}, explicit, all_d)
            t['vdigest'] = rt.expected_vdigest(kind, t['h'])
            # computation descriptor for C02/C03: slug + persisted params + input descriptors (all inputs, as the key sees them)
            t['descriptor'] = rt.H({'slug': t['slug'], 'params': {k: pcanon_cfg(v) for k, v in t['persisted'].items()},
                                    'inputs': sorted((self._strip(m, t['ns']), self.tasks[m]['descriptor']) for m in t['inputs'])})
            done[full] = True
        for full in self.tasks:
            visit(full)

    @staticmethod
    def _strip(full, ns):
        return full[len('::'.join(ns)) + 2:] if ns else full

    # ---- closures ------------------------------------------------------------------------------------------------
    def ancestors(self, full):
        out, stack = set(), list(self.tasks[full]['inputs'])
        while stack:
            n = stack.pop()
            if n not in out:
                out.add(n)
                stack.extend(self.tasks[n]['inputs'])
        return out

    def descendants(self, full):
        return {n for n in self.tasks if full in self.ancestors(n)}

    def edges(self):
        return sorted((m, n) for n, t in self.tasks.items() for m in t['inputs'])
