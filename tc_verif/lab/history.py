"""Histories: sessions (real processes) of steps over ONE data directory; store/memory/forced model predicting runs.

A history is generated, executed by workers, and evaluated here (the parent holds the model; workers never judge).
Discrepancies are tagged with the property they refute: C01 (values), C04 (runs), C07 (forcing), C18 (records).
"""
from __future__ import annotations

import copy
import json
import random

from .. import refscheme
from . import spec as S
from .ref import Ref


# ---- generation -----------------------------------------------------------------------------------------------------

def make_variants(rng, spec, n, feat=None, allow_file_variants=True, prefer_file_variants=False):
    """roots over one spec that are 'related configs': other context, root namespace, part, or a copied file with a changed value"""
    roots = []
    base = S.gen_root(rng, spec, feat)
    roots.append(base)
    # a file mounted under two namespaces: a pair of contexts giving the two mounts swapped values
    if spec.get('extra_mounts') and rng.random() < 0.7:
        r0 = Ref(spec, {k: v for k, v in base.items() if k != 'context'})
        if r0.error is None:
            byfile = {}
            for (ns, file, part), inst in r0.instances.items():
                byfile.setdefault((file, part), []).append(inst)
            pairs = [(a, b) for v in byfile.values() if len(v) >= 2 for a in v for b in v if a is not b and a['ns'] and b['ns']]
            pairs = [(a, b) for a, b in pairs if any(not (isinstance(x, dict) and 'class' in x) for x in a['values'].values())]
            if pairs:
                a, b = rng.choice(pairs)
                k = rng.choice([k for k, x in a['values'].items() if not (isinstance(x, dict) and 'class' in x)])
                v1 = S.same_type_value(rng, a['values'][k])
                v2 = S.same_type_value(rng, v1)
                na, nb = '::'.join(a['ns']), '::'.join(b['ns'])
                for (x, y) in ((v1, v2), (v2, v1)):
                    root = copy.deepcopy({k_: v_ for k_, v_ in base.items() if k_ != 'context'})
                    root['context'] = [{'kind': 'dict', 'data': {'for_namespaces': {na: {k: x}, nb: {k: y}}}}]
                    root['context_single'] = True
                    if Ref(spec, root).error is None:
                        roots.append(root)
    tries = 0
    while len(roots) < n and tries < 20:
        tries += 1
        r = rng.random()
        if prefer_file_variants and rng.random() < 0.7:
            r = 0.9
        root = copy.deepcopy(rng.choice(roots))
        if r < 0.2 and root.get('context') and not any(x['kind'] == 'file' for x in root['context']):
            # the caller's base context object used alone here and inside a list [BASE, EXTRA] elsewhere (same python objects within a process)
            extra = copy.deepcopy(root)
            extra.pop('context', None)
            S.add_context(rng, spec, extra, {**S.DEFAULT_FEAT, **(feat or {})})
            if extra.get('context'):
                # often EXTRA overrides an entry of a namespace that BASE overrides too (the later source wins; BASE itself must stay as it was)
                base_ns = [(s_, ns_, k_) for s_ in root['context'] if s_['kind'] != 'file'
                           for ns_, d_ in s_['data'].get('for_namespaces', {}).items() for k_ in d_]
                tgt = [s_ for s_ in extra['context'] if s_['kind'] != 'file']
                if base_ns and tgt and rng.random() < 0.7:
                    s_, ns_, k_ = rng.choice(base_ns)
                    tgt[0]['data'].setdefault('for_namespaces', {}).setdefault(ns_, {})[k_] = S.same_type_value(rng, s_['data']['for_namespaces'][ns_][k_])
                root['context'] = list(root['context']) + list(extra['context'])
                root['context_single'] = False
            for rr in roots + [root]:
                if rr.get('context'):
                    rr['context_reuse_sources'] = True
                    rr.pop('context_reuse', None)
        elif r < 0.3 and not prefer_file_variants and (feat or {}).get('rewrite_in_place', True):
            # a config file REWRITTEN IN PLACE (same path, other value) between two chain constructions
            fname = rng.choice(list(spec['files']))
            f = copy.deepcopy((root.get('file_state') or {}).get(fname) or spec['files'][fname])
            changed = False
            for part, pd in f['parts'].items():
                keys = [k for k, v in pd.get('values', {}).items() if not (isinstance(v, dict) and 'class' in v and v['class'].endswith(('LabObjSet', 'LabChainObj')))]
                if keys:
                    longs = [k_ for k_ in keys if (isinstance(pd['values'][k_], (list, str)) and len(pd['values'][k_]) > 100) or (isinstance(pd['values'][k_], dict) and 'class' in pd['values'][k_])]
                    k = rng.choice(longs) if longs and rng.random() < 0.8 else rng.choice(keys)
                    pd['values'][k] = S.same_type_value(rng, pd['values'][k])
                    changed = True
            if not changed:
                continue
            root['file_state'] = dict(root.get('file_state') or {}, **{fname: f})
        elif r < 0.4:
            root.pop('context', None)
            S.add_context(rng, spec, root, {**S.DEFAULT_FEAT, **(feat or {})})
        elif r < 0.5 and spec.get('free_ns_words'):
            root['namespace'] = rng.choice(spec['free_ns_words']) if not root.get('namespace') else None
            if root['namespace'] is None:
                root.pop('namespace')
            root.pop('context', None)
        elif r < 0.6 and spec['files'][root['file']].get('multi'):
            root['part'] = rng.choice(list(spec['files'][root['file']]['parts']))
        elif allow_file_variants:
            # copy a config file under a new name with one value changed; rewire the uses that point to it along one path
            fname = rng.choice(list(spec['files']))
            f = copy.deepcopy(spec['files'][fname])
            changed = False
            for part, pd in f['parts'].items():
                keys = [k for k, v in pd.get('values', {}).items() if not (isinstance(v, dict) and 'class' in v and v['class'].endswith(('LabObjSet', 'LabChainObj')))]
                if keys:
                    longs = [k_ for k_ in keys if (isinstance(pd['values'][k_], (list, str)) and len(pd['values'][k_]) > 100) or (isinstance(pd['values'][k_], dict) and 'class' in pd['values'][k_])]
                    k = rng.choice(longs) if longs and rng.random() < 0.8 else rng.choice(keys)
                    pd['values'][k] = S.same_type_value(rng, pd['values'][k])
                    changed = True
            if not changed:
                continue
            new_name = fname.rsplit('.', 1)[0] + f'_v{len(spec["files"])}.' + fname.rsplit('.', 1)[1]
            spec['files'][new_name] = f
            if fname == root['file']:
                root['file'] = new_name
            else:
                # new top file that uses the variant instead of the original
                top = copy.deepcopy(spec['files'][root['file']])
                hit = False
                for pd in top['parts'].values():
                    for u in pd.get('uses', []):
                        if u.get('file') == fname:
                            u['file'] = new_name
                            hit = True
                if not hit:
                    continue
                top_name = root['file'].rsplit('.', 1)[0] + f'_t{len(spec["files"])}.' + root['file'].rsplit('.', 1)[1]
                spec['files'][top_name] = top
                root['file'] = top_name
        else:
            continue
        ref = Ref(spec, root)
        if ref.error is None and ref.tasks:
            roots.append(root)
    # files rewritten in place: every root states the content of every such file at the moment its chain is built
    all_f = {f for r_ in roots for f in (r_.get('file_state') or {})}
    if all_f:
        for r_ in roots:
            r_['file_state'] = {f: (r_.get('file_state') or {}).get(f) or spec['files'][f] for f in all_f}
    return roots


def gen_history(rng, spec, roots, refs, opts):
    """-> list of sessions; session = {'spawn': bool, 'hashseed': int|None, 'steps': [...]}"""
    sessions = []
    n_sess = rng.randint(1, opts.get('max_sessions', 3))
    cid = 0
    for si in range(n_sess):
        steps = []
        live = {}     # cid -> root index
        for _ in range(rng.randint(2, opts.get('max_chains', 3))):
            ri = rng.randrange(len(roots))
            c = f'c{cid}'
            cid += 1
            bstep = {'op': 'build', 'chain': c, 'root': roots[ri], 'ri': ri, 'parameter_mode': opts.get('parameter_mode', True)}
            if live and opts.get('p_shared_registry') and opts.get('parameter_mode', True) and rng.random() < opts['p_shared_registry']:
                others_ = [c_ for c_ in live if live[c_] != ri]
                bstep['shared_from'] = rng.choice(others_ if others_ and rng.random() < 0.7 else list(live))       # Chain(config, shared_tasks=<registry of an earlier chain of this process>)
            steps.append(bstep)
            live[c] = ri
            for _ in range(rng.randint(1, opts.get('max_requests', 5))):
                c2 = rng.choice(list(live))
                names = list(refs[live[c2]].tasks)
                r = rng.random()
                if r < opts.get('p_inspect', 0.2):
                    steps.append({'op': 'inspect', 'chain': c2, 'what': rng.choice(opts.get('inspect_kinds') or ['tasks_df', 'has_data', 'data_path', 'run_info', 'log', 'repr', 'readable', 'deps'])})
                elif r < opts.get('p_inspect', 0.2) + opts.get('p_force', 0.0):
                    k = rng.choice([1, 1, 2, 3])
                    targets = rng.sample(names, min(k, len(names)))
                    # the same task name under several namespaces: force namesakes one after the other / together
                    slugs = {}
                    for n_ in names:
                        slugs.setdefault(refs[live[c2]].tasks[n_]['slug'], []).append(n_)
                    twins = [v for v in slugs.values() if len(v) >= 2]
                    if twins and rng.random() < 0.4:
                        tw = rng.choice(twins)
                        targets = rng.sample(tw, rng.choice([1, 2]))
                    st = {'op': 'force', 'chain': c2, 'tasks': targets, 'ri': live[c2]}
                    fr = rng.random()
                    if fr < 0.25:
                        st['recompute'] = True
                    elif fr < 0.5:
                        st['delete_data'] = True
                    elif fr < 0.6:
                        st['recompute'] = st['delete_data'] = True
                    how = rng.random()
                    if how < 0.2:
                        st['via'] = 'task'
                        st.pop('recompute', None)
                    elif how < 0.5:
                        st['as_objects'] = True
                    if len(targets) == 1 and rng.random() < 0.5:
                        st['scalar'] = True
                    elif st.get('via') != 'task' and rng.random() < 0.5:
                        st['container'] = rng.choice(['tuple', 'set', 'generator', 'map', 'dict'])
                    steps.append(st)
                    steps.append({'op': 'snapshot', 'chain': c2, 'light': True, 'ri': live[c2]})
                elif r < opts.get('p_inspect', 0.2) + opts.get('p_force', 0.0) + opts.get('p_fault', 0.0):
                    t = rng.choice(names)
                    kinds = ['raise_before', 'raise_after_log', 'abort_after_log']
                    if refs[live[c2]].tasks[t]['spec']['data_kind'] == 'generator':
                        kinds = ['raise_in_generator', 'raise_in_generator', 'raise_before']
                    steps.append({'op': 'arm_fault', 'chain': c2, 'task': t, 'kind': rng.choice(kinds), 'ri': live[c2]})
                    if opts.get('p_force') and rng.random() < opts.get('p_fault_force', 0.3) and refs[live[c2]].tasks[t]['spec']['data_kind'] != 'memory':
                        # force(delete_data=True, recompute=True) during which one recomputation fails: nothing of the failed task and of what
                        # depends on it may stay stored (the rest of this chain's history is not judged: which tasks were already recomputed
                        # depends on an unspecified order)
                        root_t = rng.choice([t] + sorted(refs[live[c2]].ancestors(t)))
                        steps.append({'op': 'force', 'chain': c2, 'tasks': [root_t], 'ri': live[c2], 'recompute': True, 'delete_data': True, 'expect_fault': t})
                        steps.append({'op': 'snapshot', 'chain': c2, 'light': True, 'ri': live[c2]})
                        steps.append({'op': 'disarm', 'chain': c2})
                        break
                    steps.append({'op': 'value', 'chain': c2, 'task': rng.choice([t] + sorted(refs[live[c2]].descendants(t))), 'ri': live[c2]})
                    steps.append({'op': 'disarm', 'chain': c2})
                elif opts.get('p_reset') and rng.random() < opts['p_reset']:
                    # memory released between requests (all tasks, or the ones forced last), then one of them is asked again
                    last_force = next((s_ for s_ in reversed(steps) if s_['op'] == 'force' and s_['chain'] == c2 and not s_.get('expect_fault')), None)
                    tg = list(names) if rng.random() < 0.5 or not last_force else sorted(set(last_force['tasks']) | set().union(*[refs[live[c2]].descendants(t_) for t_ in last_force['tasks']]))
                    steps.append({'op': 'reset', 'chain': c2, 'tasks': tg, 'ri': live[c2]})
                    steps.append({'op': 'snapshot', 'chain': c2, 'light': True, 'ri': live[c2]})
                    steps.append({'op': 'value', 'chain': c2, 'task': rng.choice(tg), 'ri': live[c2]})
                else:
                    steps.append({'op': 'value', 'chain': c2, 'task': rng.choice(names), 'ri': live[c2], 'twice': rng.random() < 0.1})
                if opts.get('inspect_after_run') and steps[-1]['op'] in ('value', 'force', 'disarm') and rng.random() < opts['inspect_after_run']:
                    # mostly through the chain that was just used (records are read again and again through the same task objects)
                    steps.append({'op': 'inspect', 'chain': c2 if rng.random() < 0.7 else rng.choice(list(live)), 'what': rng.choice(opts['inspect_kinds'])})
            steps.append({'op': 'snapshot', 'chain': c, 'light': True, 'ri': ri})
            if opts.get('p_poison') and rng.random() < opts['p_poison'] and len(live) > 1:
                # code using this chain's tasks modifies, in place, the parameter values they were given (also default values); the chain is not
                # used again, chains built later in this process must not notice
                pc = rng.choice(list(live))
                steps.append({'op': 'poison_params', 'chain': pc})
                del live[pc]
        spawn = rng.random() < opts.get('p_spawn', 0.15)
        sessions.append({'spawn': spawn, 'hashseed': rng.randrange(1, 10 ** 6) if spawn else None, 'steps': steps})
    return sessions


# ---- model ----------------------------------------------------------------------------------------------------------

class Obj:
    __slots__ = ('oid', 'names', 'ref_name', 'ri', 'in_memory', 'forced', 'owner')

    def __init__(self, oid, ri):
        self.oid, self.ri, self.names, self.ref_name = oid, ri, [], None
        self.in_memory = False
        self.forced = False
        self.owner = None


class Model:
    """store = set of locations holding a complete result; per task object: in-memory flag, forced flag."""

    def __init__(self, refs):
        self.refs = refs
        self.store = set()
        self.chains = {}        # (session, cid) -> {'ri':, 'objs': {name: Obj}}
        self.writer = {}        # location -> (session, cid, ri) of the run that stored it
        self.tainted = False
        self.attempt_only = []
        self.ri_chain = None
        self.pools = {}

    def new_chain(self, sid, cid, ri, snap, shared=False):
        # task objects are identified by id() within one process (session); a chain built on another chain's registry shares objects with it
        pool = self.pools.setdefault(sid, {}) if shared else {}
        objs_by_id = {}
        objs = {}
        for name, d in snap.items():
            o = objs_by_id.get(d['id'])
            if o is None:
                o = pool.get(d['id'])
                if o is None:
                    o = Obj(d['id'], ri)
                    o.ref_name = name
                    o.owner = (sid, cid)
                    fresh = True
                else:
                    fresh = False
                objs_by_id[d['id']] = o
                self.pools.setdefault(sid, {})[d['id']] = o
            if o.owner == (sid, cid):
                o.names.append(name)
            objs[name] = o
        self.chains[(sid, cid)] = {'ri': ri, 'objs': objs}
        return objs

    def t(self, ri, name):
        return self.refs[ri].tasks[name]

    def loc(self, o):
        return self.t(o.ri, o.ref_name)['rel_path']

    def persisting(self, o):
        return self.t(o.ri, o.ref_name)['spec']['data_kind'] != 'memory'

    def request(self, ch, o, runs, fault_task=None, stack=None):
        """-> True if ok, False if a fault propagated. `runs` collects (canonical task name, key) of expected run starts."""
        if o.in_memory:
            if self.t(o.ri, o.ref_name)['spec']['data_kind'] in ('lazy', 'dir', 'continues', 'empty_dir', 'dir_link') and self.loc(o) not in self.store:
                self.tainted = True     # in-memory handle (path / lazy reader) to files that were deleted on request by another chain
            return True
        if self.persisting(o) and self.loc(o) in self.store and not o.forced:
            o.in_memory = True
            return True
        t = self.t(o.ri, o.ref_name)
        och = self.ri_chain.get(o.ri, ch) if self.ri_chain else self.chains.get(o.owner, ch)    # names of a shared object belong to the chain that created it
        arg_targets = t.get('arg_targets', [])
        for target in arg_targets:
            # run arguments are computed before the run body is entered: if one of them fails this task's run never starts
            if not self.request(och, och['objs'][target], runs, fault_task):
                # (its log file was already re-opened for the run that never started)
                self.attempt_only.append((o.ref_name, t['key'], tuple(sorted(o.names))))
                return False
        runs.append((o.ref_name, t['key'], tuple(sorted(o.names))))
        faulty = fault_task is not None and (fault_task[0] in o.names or (len(fault_task) > 2 and fault_task[2] is not None and fault_task[2] == o.oid))
        if faulty and fault_task[1] == 'raise_before':      # (`raise_after_log` / `abort_after_log`: the run has started when it fails)
            return False
        for target in t['read_targets']:
            if target in arg_targets:
                continue
            if not self.request(och, och['objs'][target], runs, fault_task):
                return False
        if faulty:
            return False
        if self.persisting(o):
            self.store.add(self.loc(o))
        o.in_memory = True
        return True

    def force(self, ch, objs, delete_data):
        deleted = []
        for o in objs:
            if delete_data and self.persisting(o) and self.loc(o) in self.store:
                self.store.discard(self.loc(o))
                deleted.append(self.loc(o))
            o.forced = True
            o.in_memory = False
        return deleted

    def closure(self, ch, names):
        ref = self.refs[ch['ri']]
        objs = ch['objs']
        succ = {}
        for a, b in ref.edges():
            succ.setdefault(objs[a].oid, set()).add(objs[b])
        out = {}
        stack = [objs[n] for n in names]
        while stack:
            o = stack.pop()
            if o.oid not in out:
                out[o.oid] = o
                stack.extend(succ.get(o.oid, ()))
        return list(out.values())


def run_key(rec):
    return (rec['task'], rec['key'])


# ---- execution + evaluation -------------------------------------------------------------------------------------------

def evaluate_history(lab, spec, roots, refs, sessions, counters, want):
    """runs the sessions, feeds the model, returns list of discrepancies {'prop','tag','what'}"""
    from .harness import session_problem
    disc = []
    model = Model(refs)
    trouble = None
    writers = {}    # location -> {'sid', 'ri'}
    latest = {}     # (slug, key) -> record of the latest successful run of that location

    def add(prop, tag, what):
        if prop in want:
            disc.append({'prop': prop, 'tag': tag, 'what': what})

    def tinfo(n, k):
        # a run of an object shared with another chain is recorded under the names of the chain that created it
        for r_ in refs:
            t_ = r_.tasks.get(n)
            if t_ is not None and t_['key'] == k:
                return t_
        return next(t_ for r_ in refs for t_ in r_.tasks.values() if t_['key'] == k and t_['full'].split('::')[-1] == n.split('::')[-1])

    for sid, sess in enumerate(sessions):
        r = lab.run(sess['steps'], spawn=sess['spawn'], hashseed=sess.get('hashseed'), timeout=180)
        prob = session_problem(r)
        if prob:
            return disc, prob
        counters['sessions'] += 1
        if sess['spawn']:
            counters['spawned_sessions'] += 1
        armed = None
        pending_absent = None
        for step, o in zip(sess['steps'], r['steps']):
            op = step['op']
            counters['steps'] += 1
            here = f'session {sid} step {o["step"]} {op} {step.get("task") or step.get("tasks") or step.get("what") or ""}'
            key = (sid, step.get('chain'))
            obs_runs = [x for x in o['runs'] if x['phase'] == 'start']
            for x in o['runs']:
                if x['phase'] == 'run_info_error':
                    add('C18', 'record_refused', f'{here}: save_to_run_info refused the record {x.get("record")} of {x["task"]}: {x.get("error")}')
            if op == 'build':
                if not o['ok']:
                    add('C08', 'build', f'{here}: valid configuration failed to build: {o.get("exc")}: {o.get("msg")}')
                    return disc, None
                model.new_chain(sid, step['chain'], step['ri'], o['snapshot']['tasks'], shared=bool(step.get('shared_from')))
                if step.get('shared_from'):
                    counters['chains_on_shared_registry'] += 1
                counters['chains_built'] += 1
                if obs_runs:
                    add('C04', 'runs_on_build', f'{here}: building a chain executed run of {[x["task"] for x in obs_runs]}')
                continue
            ch = model.chains.get(key)
            if ch is None:
                continue
            ref = refs[ch['ri']]
            if op in ('inspect', 'snapshot'):
                counters['inspections'] += 1
                if obs_runs:
                    add('C04', 'runs_on_inspect', f'{here}: inspection `{step.get("what", "snapshot")}` executed run of {[x["task"] for x in obs_runs]}')
                if not o['ok']:
                    add('C04', 'inspect_failed', f'{here}: inspection raised {o.get("exc")}: {o.get("msg")}')
                    if op == 'inspect' and step['what'] in ('run_info', 'log'):
                        add('C18', 'records_unreadable', f'{here}: the {step["what"]} of the tasks cannot be obtained: {o.get("exc")}: {o.get("msg")}')
                if op == 'snapshot' and o['ok'] and pending_absent is not None:
                    for n in pending_absent:
                        counters['failed_forced_recompute_checks'] += 1
                        d = o['snapshot']['tasks'].get(n) or {}
                        if d.get('has_data'):
                            add('C07', 'stale_after_failed_forced_recompute', f'{here}: force(delete_data=True, recompute=True) failed while recomputing; {n} (the failed task '
                                                                              f'or a task depending on it) still has a stored result: a stale result stays visible')
                    return disc, None
                if op == 'snapshot' and o['ok']:
                    for n, d in o['snapshot']['tasks'].items():
                        ob = ch['objs'][n]
                        exp_has = model.persisting(ob) and model.loc(ob) in model.store
                        if d.get('has_data') != exp_has:
                            add('C04', 'has_data', f'{here}: has_data of {n} is {d.get("has_data")}, the history implies {exp_has}')
                        if d['forced'] != ob.forced:
                            add('C07', 'forced_flag', f'{here}: is_forced of {n} is {d["forced"]}, expected {ob.forced}')
                if op == 'inspect' and step['what'] in ('run_info', 'log') and o['ok'] and 'C18' in want:
                    check_records(step['what'], o, ch, ref, refs, latest, model, add, here, counters)
                if op == 'inspect' and step['what'] == 'has_data' and o['ok']:
                    for n, hd in o['has_data'].items():
                        ob = ch['objs'][n]
                        exp_has = model.persisting(ob) and model.loc(ob) in model.store
                        if hd != exp_has:
                            add('C04', 'has_data', f'{here}: has_data of {n} is {hd}, the history implies {exp_has}')
                continue
            if op == 'poison_params':
                counters['chains_whose_parameter_values_were_modified_in_place'] += 1
                continue
            if op == 'reset':
                # reset_data(): the task object lets go of its in-memory data; stored results and the forced mark are not touched
                counters['reset_data_steps'] += 1
                if obs_runs:
                    add('C04', 'runs_on_inspect', f'{here}: reset_data executed run of {[x["task"] for x in obs_runs]}')
                if not o['ok']:
                    add('C04', 'inspect_failed', f'{here}: reset_data raised {o.get("exc")}: {o.get("msg")}')
                    return disc, None
                for n in step['tasks']:
                    if ch['objs'][n].forced:
                        counters['reset_data_on_forced_task'] += 1
                    ch['objs'][n].in_memory = False
                continue
            if op == 'arm_fault':
                # (the fault is armed for the OBJECT the name denotes in this chain: a task shared between chains runs under the full name it was created with)
                armed = (step['task'], step['kind'], ch['objs'][step['task']].oid if step['task'] in ch['objs'] else None)
                continue
            if op == 'disarm':
                armed = None
                continue
            if op == 'value':
                ob = ch['objs'][step['task']]
                exp_runs = []
                was_mem, was_stored = ob.in_memory, (model.persisting(ob) and model.loc(ob) in model.store)
                model.attempt_only = []
                ok = model.request(ch, ob, exp_runs, fault_task=armed)
                if model.tainted:
                    # outside the statement: a result deliberately deleted through one chain while another chain still holds a handle
                    # to its files in memory; the rest of this history is not judged
                    counters['histories_cut_at_dangling_handle'] += 1
                    return disc, None
                # provenance class of this observation
                if o['ok']:
                    counters['values_observed'] += 1
                    cls = 'in_memory' if was_mem else ('computed_now' if exp_runs and exp_runs[0][0] == ob.ref_name else 'loaded')
                    counters['prov_' + cls] += 1
                    if cls == 'loaded':
                        w = writers.get(model.loc(ob))
                        if w:
                            if w['sid'] != sid:
                                counters['prov_loaded_other_process'] += 1
                            if json.dumps(w['root'], sort_keys=True) != json.dumps(roots[ch['ri']], sort_keys=True):
                                counters['prov_loaded_written_by_other_config'] += 1
                            if w['task'] != step['task']:
                                counters['prov_loaded_written_under_other_name'] += 1
                        if any(not ch['objs'][m].in_memory and not (model.persisting(ch['objs'][m]) and model.loc(ch['objs'][m]) in model.store)
                               for m in ref.ancestors(step['task'])):
                            counters['loads_with_missing_upstream'] += 1
                # C01: value
                exp_digest = ref.tasks[step['task']]['vdigest']
                if False:
                    pass
                elif ok:
                    if not o['ok']:
                        add('C01', 'value_error', f'{here}: value request failed: {o.get("exc")}: {o.get("msg")}')
                    elif o['vdigest'] != exp_digest:
                        add('C01', 'stale_or_foreign', f'{here}: returned a value that is not the result of this task under the chain\'s current '
                                                       f'configuration (digest {o["vdigest"]}, reference {exp_digest}; was in memory: {was_mem}, was stored: {was_stored})')
                    elif step.get('twice') and o.get('vdigest2') != exp_digest:
                        add('C01', 'stale_or_foreign', f'{here}: second read of the value differs')
                else:
                    counters['faulted_requests'] += 1
                    if o['ok']:
                        add('C05', 'fault_swallowed', f'{here}: run of {armed} raised but the value request returned normally')
                # C04/C07: runs
                got = sorted((x['task'], x['key']) for x in obs_runs)
                # a shared object may log under any of its names
                exp_sets = [(set(names), k) for (_, k, names) in exp_runs]
                matched = len(got) == len(exp_sets)
                if matched:
                    pool = list(exp_sets)
                    for (tn, k) in got:
                        hit = next((e for e in pool if tn in e[0] and k == e[1]), None)
                        if hit is None:
                            matched = False
                            break
                        pool.remove(hit)
                if not matched:
                    prop = 'C07' if any(ch['objs'][n].forced for n in ch['objs']) else 'C04'
                    add(prop, 'runs', f'{here}: executed runs {got}, the model predicts {[(n, k) for (n, k, _) in exp_runs]} '
                                      f'(was in memory: {was_mem}, was stored: {was_stored}, forced: {ob.forced})')
                counters['runs_observed'] += len(got)
                rpl = counters.setdefault('_runs_per_location', {})
                for x in obs_runs:
                    tt = next((t for t in ref.tasks.values() if t['key'] == x['key'] and t['slug'] == x['slug']), None)
                    if tt is not None and tt['rel_path']:
                        rpl[tt['rel_path']] = rpl.get(tt['rel_path'], 0) + 1
                if ok and o['ok']:
                    written = set()
                    for ev, path in o['fs']:
                        if ev in ('open_w', 'os.mkdir'):
                            written.add(path)
                        elif ev in ('shutil.move', 'os.rename') and ' -> ' in path:
                            written.add(path.split(' -> ')[1])
                    for (n, k, names) in exp_runs:
                        rp = tinfo(n, k)['rel_path']
                        if rp and rp not in written and not any(w.startswith(rp + '/') for w in written):
                            add('C07', 'not_replaced', f'{here}: task {n} ran but did not write its stored result {rp}')
                        counters['replacement_checks'] += 1
                for (n, k, names) in exp_runs:
                    t = tinfo(n, k)
                    if t['rel_path']:
                        writers[t['rel_path']] = {'sid': sid, 'root': roots[ch['ri']], 'task': n}
                if not ok:
                    # every run the model saw starting in a failed request is an attempt (a dependant whose argument evaluation
                    # failed never reaches its run body, but its log was already re-opened)
                    for (n_, k_, _) in exp_runs + model.attempt_only:
                        latest[('attempt', tinfo(n_, k_)['slug'], k_)] = f'failed@{sid}:{o["step"]}'
                note_runs(latest, o['runs'], ref, ch, sid, failed_task=None if ok else armed)
                continue
            if op == 'force':
                counters['force_steps'] += 1
                names = step['tasks']
                if step.get('expect_fault'):
                    ft = step['expect_fault']
                    objs = model.closure(ch, names)
                    if o['ok']:
                        add('C05', 'fault_swallowed', f'{here}: the recomputation of {ft} raised but force(recompute=True) returned normally')
                        return disc, None
                    fobj = ch['objs'][ft]
                    down = set(ref.descendants(ft)) | {ft}
                    pending_absent = sorted(n_ for n_ in down if ch['objs'][n_] in objs and model.persisting(ch['objs'][n_]))
                    continue
                if step.get('via') == 'task':
                    objs = []
                    for n in names:
                        if ch['objs'][n] not in objs:
                            objs.append(ch['objs'][n])
                else:
                    objs = model.closure(ch, names)
                had = {model.loc(x) for x in objs if model.persisting(x) and model.loc(x) in model.store}
                deleted = model.force(ch, objs, bool(step.get('delete_data')))
                exp_runs = []
                if step.get('recompute'):
                    for x in objs:
                        model.request(ch, x, exp_runs)
                    if model.tainted:
                        # (the recomputation reads an in-memory handle to files another chain deleted on request: not judged, see `value`)
                        counters['histories_cut_at_dangling_handle'] += 1
                        return disc, None
                if not o['ok']:
                    add('C07', 'force_failed', f'{here}: force raised {o.get("exc")}: {o.get("msg")}')
                    return disc, None
                got = sorted((x['task'], x['key']) for x in obs_runs)
                exp = sorted((n, k) for (n, k, _) in exp_runs)
                ok_runs = len(got) == len(exp)
                if ok_runs:
                    pool = [(set(names_), k) for (_, k, names_) in exp_runs]
                    for (tn, k) in got:
                        hit = next((e for e in pool if tn in e[0] and k == e[1]), None)
                        if hit is None:
                            ok_runs = False
                            break
                        pool.remove(hit)
                if not ok_runs:
                    add('C07', 'recompute_runs', f'{here}: force(recompute={bool(step.get("recompute"))}) executed {got}, expected exactly {exp}')
                counters['runs_observed'] += len(got)
                for (n, k, names_) in exp_runs:
                    t = tinfo(n, k)
                    if t['rel_path']:
                        writers[t['rel_path']] = {'sid': sid, 'root': roots[ch['ri']], 'task': n}
                step['_expected_deleted'] = deleted
                note_runs(latest, o['runs'], ref, ch, sid, failed_task=None)
                # stored results removed in this step == exactly the forced ones that had data (delete_data), none otherwise
                locs = {t['rel_path'] for t in ref.tasks.values() if t['rel_path']}
                removed = set()
                for ev, path in o['fs']:
                    if ev in ('os.remove', 'shutil.rmtree', 'os.rmdir', 'os.unlink'):
                        if path in locs:
                            removed.add(path)
                # recomputed directory results are replaced by remove+move: those are not deletions
                rewritten = {tinfo(n, k)['rel_path'] for (n, k, _) in exp_runs if tinfo(n, k)['rel_path']}
                removed_net = {p for p in removed if p not in rewritten}
                if removed_net != set(deleted) - rewritten:
                    add('C07', 'deleted_set', f'{here}: stored results removed {sorted(removed_net)}, expected exactly {sorted(set(deleted) - rewritten)} '
                                              f'(delete_data={bool(step.get("delete_data"))})')
                counters['delete_checks'] += 1
                # every recomputed persisting task wrote its location in this step
                written = set()
                for ev, path in o['fs']:
                    if ev in ('open_w', 'os.mkdir'):
                        written.add(path)
                    elif ev in ('shutil.move', 'os.rename') and ' -> ' in path:
                        written.add(path.split(' -> ')[1])
                for (n, k, _) in exp_runs:
                    rp = tinfo(n, k)['rel_path']
                    if rp and rp not in written and not any(w.startswith(rp + '/') for w in written):
                        add('C07', 'not_replaced', f'{here}: recomputed task {n} did not write its stored result {rp}')
                    counters['replacement_checks'] += 1
                continue
    return disc, None


# ---- C18: run records ---------------------------------------------------------------------------------------------------

def note_runs(latest, records, ref, ch, sid, failed_task):
    """remember, per location, the latest run that completed (start ... end without a fault in between or downstream abort)"""
    started = {}
    for r in records:
        if r['phase'] == 'start':
            started[r['uid']] = r
            latest[('attempt', r['slug'], r['key'])] = r['uid']
        elif r['phase'] == 'end':
            started.pop(r['uid'], None)
            if failed_task is not None and r['task'] in ch['objs'][failed_task[0]].names:
                continue    # the body of a generator failed after run had returned: not a completed run
            latest_candidate = dict(r, sid=sid, ri=ch['ri'])
            latest.setdefault('_pending', []).append(latest_candidate)
    # a run that ended inside lab_run may still have failed later only through injected save-faults (not used in histories):
    # every 'end' record of this step is a completed run, unless a dependant's failure... (failures do not undo completed inputs)
    for c in latest.pop('_pending', []):
        latest[(c['slug'], c['key'])] = c


def check_records(what, o, ch, ref, refs, latest, model, add, here, counters):
    from .. import refscheme
    for n, t in ref.tasks.items():
        lr = latest.get((t['slug'], t['key']))
        if lr is not None and latest.get(('attempt', t['slug'], t['key'])) != lr['uid']:
            # a later attempt failed and has not been retried yet. The stored result is still the one of the last successful run and the run
            # info (written only after a successful save) must still describe that run; what the log holds in this state is not specified.
            counters['failed_attempt_since_success'] += 1
            if what == 'log':
                continue
        if what == 'log' and t['spec'].get('mem_opt'):
            # an in-memory data class that only `run` can create (constructor arguments): there is no data object to collect the log before the run
            # starts; what `task.log` gives for such a class is not specified
            counters['logs_not_judged_data_object_created_by_run'] += 1
            continue
        ob = ch['objs'][n]
        if what == 'run_info':
            info = o['run_info'].get(n)
            if lr is None:
                continue
            counters['run_infos_checked'] += 1
            if info is None:
                add('C18', 'run_info_missing', f'{here}: {n} has run (uid {lr["uid"]}) but has no run info')
                continue
            wref = refs[lr['ri']]
            wt = wref.tasks.get(lr['task']) or next((x for x in wref.tasks.values() if x['slug'] == lr['slug'] and x['key'] == lr['key']), None)
            exp_log = [{'lab_uid': lr['uid'], 'n': 1}, 0, {},
                       {'lab_uid': lr['uid'], 'mean': ['np', 'float64', 0.25], 'count': ['np', 'int64', 7], 'where': ['path', 'out/x'], 'shape': ['tuple', [2, 3]],
                        'hist': ['map', [[3, 1], [12, 2]]], 'best': ['float', 'inf'], 'note': 'to be continued\x85', 'title': 'é \u2028x'},
                       {'lab_uid': lr['uid'], 'done': 1}, {'lab_uid': lr['uid'], 'done': 2, 'more': 5}, {'lab_uid': lr['uid'], 'n': 2}]
            if info.get('log') != exp_log:
                add('C18', 'run_info_log', f'{here}: run info of {n} holds records {info.get("log")}, the latest run of this location added {exp_log}')
            tk = info.get('task') or {}
            if tk.get('name') != t['slug'] or tk.get('class') != t['spec']['cls'] or tk.get('module') != t['spec']['mod_path']:
                add('C18', 'run_info_task', f'{here}: run info of {n} names task {tk}, expected {t["slug"]}/{t["spec"]["cls"]}/{t["spec"]["mod_path"]}')
            if wt is not None:
                gv_active = wref.gv is not None
                params = info.get('parameters') or {}
                for pn, v in wt['params'].items():
                    if pn not in params:
                        add('C18', 'run_info_params', f'{here}: run info of {n} lacks parameter {pn}')
                    elif (pn in wt['persisted'] or lr['task'] in wref.tasks) and params[pn] != refscheme.value_repr(v, gv_active):
                        add('C18', 'run_info_params', f'{here}: run info of {n}: parameter {pn} recorded as {params[pn]!r}, the run used {refscheme.value_repr(v, gv_active)!r}')
                exp_inputs = {m: wref.tasks[m]['key'] for m in wt['inputs']}
                got_inputs = info.get('input_tasks')
                if not wref.parameter_mode:
                    # name mode: the library records input keys only for parameter-mode configs; there the config name (recorded) IS the key of every task
                    counters['name_mode_run_infos'] += 1
                elif got_inputs != exp_inputs and sorted((got_inputs or {}).values()) != sorted(exp_inputs.values()):
                    add('C18', 'run_info_inputs', f'{here}: run info of {n} records input keys {got_inputs}, the run had {exp_inputs}')
                cfg = info.get('config') or {}
                shared = sum(1 for x in wref.tasks.values() if x['slug'] == wt['slug'] and x['key'] == wt['key']) > 1
                if not shared:
                    name_ok = str(cfg.get('name', '')).startswith(wt['inst']['name'] + '/') if wref.parameter_mode else cfg.get('name') == wt['inst']['name']
                    if not name_ok or (cfg.get('namespace') or None) != ('::'.join(wt['ns']) or None):
                        add('C18', 'run_info_config', f'{here}: run info of {n} names config {cfg.get("name")} / namespace {cfg.get("namespace")}, '
                                                        f'the task came from config {wt["inst"]["name"]} in namespace {"::".join(wt["ns"]) or None}')
        else:
            lines = o['log'].get(n)
            if lr is None:
                continue
            counters['logs_checked'] += 1
            if lines is None:
                add('C18', 'log_missing', f'{here}: {n} has run (uid {lr["uid"]}) but has no log')
                continue
            msgs = [l[l.index('LABMSG'):] for l in lines if 'LABMSG' in l]
            exp = [f'LABMSG uid={lr["uid"]} n=1 task={lr["task"]}', f'LABMSG uid={lr["uid"]} n=1b task={lr["task"]}', f'LABMSG uid={lr["uid"]} n=2 task={lr["task"]}']
            if msgs != exp:
                add('C18', 'log_content', f'{here}: log of {n} holds {msgs[:6]}{"..." if len(msgs) > 6 else ""}, the latest run of this location logged {exp}')
            if any('\x00' in l for l in lines):
                add('C18', 'log_content', f'{here}: log of {n} contains NUL padding')
