"""Construction-level cases shared by C08 / C09 / C12 (and the graph half of C10): generate, build in a real process, compare."""
from __future__ import annotations

import copy
import random

from ..core import CaseResult, jhash
from . import spec as S
from .harness import Lab, session_problem
from .oracle import compare_build, compare_closures
from .ref import Ref

ERROR_KINDS = ['dangling', 'selfloop', 'cycle2', 'cycle3', 'missing_param', 'dtype', 'conflict']


def features_of(spec, root, ref):
    f = set()
    for m in spec['modules']:
        for t in m['tasks']:
            if t.get('abstract'):
                f.add('abstract')
            if t.get('base') == 'ModuleTask':
                f.add('module_task')
            if t.get('base') == 'DoubleModuleTask':
                f.add('double_module_task')
            if t.get('group'):
                f.add('group_multi' if ':' in t['group'] else 'group')
            for i in t.get('inputs', []):
                f.add('input_' + i['form'])
                if i.get('optional'):
                    f.add('input_optional')
                if i.get('in_parameters'):
                    f.add('input_in_parameters')
            for p in t.get('params', []):
                for k in ('name_in_config', 'dtype', 'ignore', 'drop_default'):
                    if p.get(k):
                        f.add('param_' + k)
    for fl in spec['files'].values():
        if fl.get('multi'):
            f.add('multi_config')
        for pd in fl['parts'].values():
            if pd.get('excluded_tasks'):
                f.add('excluded_tasks')
            for u in pd.get('uses', []):
                f.add('uses_as' if u.get('as') else 'uses_plain')
                if u.get('as') and '::' in u['as']:
                    f.add('uses_as_nested')
    if root.get('namespace'):
        f.add('root_namespace')
    if root.get('context'):
        f.add('context')
        for s in root['context']:
            f.add('context_' + s['kind'])
            d = s.get('data') or spec['context_files'].get(s.get('file'), {})
            if d.get('for_namespaces'):
                f.add('context_for_namespaces')
        if len(root['context']) > 1:
            f.add('context_list')
    if root.get('global_vars'):
        f.add('global_vars_' + root['global_vars']['kind'])
    if ref is not None and ref.error is None:
        files = {}
        for (ns, file, part) in ref.instances:
            files.setdefault((file, part), set()).add(ns)
        if any(len(v) > 1 for v in files.values()):
            f.add('same_file_mounted_twice')
        if any(len(ns) >= 2 for (ns, _, _) in ref.instances):
            f.add('namespace_depth_2plus')
    return f


def run_build_case(rng, res: CaseResult, props, feat=None, inject=None, extra_steps=None, after=None, parameter_mode=True, spec_root=None, name_mode_twins=False):
    """one generated spec: build (+deps), compare with the reference; violations for `props` only.
    `after(lab, ref, spec, root, result_steps, res)` can add property specific checks on the same lab."""
    if spec_root is not None:
        spec, root = spec_root
    else:
        spec = S.gen_spec(rng, feat)
        root = S.gen_root(rng, spec, feat)
    injected = None
    if inject:
        injected = S.inject_error(rng, spec, inject)
        if injected is None:
            res.count('inject_not_applicable')
            return None
    ref = Ref(spec, root, parameter_mode=parameter_mode)
    twin_names_only = False
    if not parameter_mode:
        # name mode shares one task object between all mounts of one config file (results are addressed by config name): such trees are outside
        seen_fp = set()
        for (ns_, file_, part_) in ref.instances:
            if (file_, part_) in seen_fp:
                if name_mode_twins and not inject:
                    # the mounts share their task objects (one input binding for both, one value): only the SET OF TASK NAMES of a chain that
                    # could be built is well defined and compared
                    twin_names_only = True
                    break
                res.count('name_mode_rejects_same_file_twice')
                return None
            seen_fp.add((file_, part_))
    if inject and ref.error is None:
        res.count('inject_ineffective')     # the mutated class is not instantiated by this root (excluded / other part): a valid spec
        injected = None
    elif inject:
        res.count('injected_' + inject)
    steps = [{'op': 'build', 'chain': 'c0', 'root': root, 'parameter_mode': parameter_mode}, {'op': 'inspect', 'chain': 'c0', 'what': 'deps'}]
    steps += extra_steps or []
    with Lab(spec) as lab:
        r = lab.run(steps, tracebacks=False)
        prob = session_problem(r)
        if prob:
            res.inconclusive.append(prob)
            return None
        st = r['steps']
        witness = {'spec': spec, 'root': root, 'inject': injected}
        if twin_names_only:
            if ref.error is None and st[0]['ok']:
                res.count('name_mode_twin_mounts')
                got_, want_ = set(st[0]['snapshot']['tasks']), set(ref.tasks)
                if got_ != want_ and 'C08' in props:
                    res.violate(f'name mode, one config mounted under two namespaces: task names differ: only in chain {sorted(got_ - want_)}, only in reference '
                                f'{sorted(want_ - got_)}', witness=witness, facts={'tag': 'names'})
            return None
        disc = compare_build(ref, st[0], parameter_mode)
        if ref.error is None and st[0]['ok'] and st[1]['ok'] and set(st[0]['snapshot']['tasks']) == set(ref.tasks):
            disc += compare_closures(ref, st[0], st[1])
            res.count('closure_checks', 2 * len(ref.tasks))
        elif ref.error is None and st[0]['ok'] and not st[1]['ok']:
            disc.append({'prop': 'C08', 'tag': 'closures', 'what': f'required_tasks/dependent_tasks raised {st[1].get("exc")}: {st[1].get("msg")}', 'facts': {}})
        res.count('builds')
        if st[0].get('runs') or st[1].get('runs'):
            disc.append({'prop': 'C04', 'tag': 'runs_on_build', 'what': f'building/inspecting the chain executed run: {[x["task"] for x in st[0]["runs"] + st[1]["runs"]][:5]}', 'facts': {}})
        if ref.error is not None:
            res.count('expected_error_cases')
            res.count('expected_error_' + ref.error.kind)
            if not st[0]['ok']:
                res.count('errors_reported')
                res.extra.setdefault('error_types', {})
                et = f'{ref.error.kind}->{st[0]["exc"]}'
                res.extra['error_types'][et] = res.extra['error_types'].get(et, 0) + 1
        else:
            res.count('valid_specs')
            if st[0]['ok']:
                res.count('tasks_built', len(ref.tasks))
                res.count('edges_checked', len(ref.edges()))
                res.count('params_checked', sum(len(t['received']) for t in ref.tasks.values()))
        feats = features_of(spec, root, ref)
        fx = res.extra.setdefault('features', {})
        for f_ in feats:
            fx[f_] = fx.get(f_, 0) + 1
        for d in disc:
            if d['prop'] in props:
                res.violate(d['what'], mech=d.get('mech'), facts=dict(d.get('facts', {}), tag=d['tag']), witness=witness)
        nontrivial = (ref.error is not None and injected) or (ref.error is None and len(ref.tasks) >= 3 and len(ref.edges()) >= 1)
        if nontrivial:
            res.nt(jhash([spec['modules'], spec['files'], root, injected]))
        if res.sample is None:
            res.sample = {'root': root, 'files': spec['files'], 'tasks': {n: {'key': t.get('key'), 'inputs': list(t['inputs'])} for n, t in list(ref.tasks.items())[:6]},
                          'injected': injected, 'ref_error': str(ref.error) if ref.error else None}
        if after and ref.error is None and st[0]['ok']:
            after(lab, ref, spec, root, st, res, witness)
        return ref
