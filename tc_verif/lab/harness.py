"""Scratch lab directory: emitted package + configs + one shared data dir; runs sessions in real processes."""
from __future__ import annotations

import json
import os
import shutil
import tempfile
from pathlib import Path

from . import emit, worker


class Lab:
    def __init__(self, spec, prefix='lab-'):
        self.spec = spec
        self.root = Path(tempfile.mkdtemp(prefix=prefix))
        self.paths = emit.emit(spec, self.root)
        self.data_dir = self.root / 'data'
        self.log = self.root / 'invocations.jsonl'
        self.nsess = 0
        self.sess_env = None       # environment variables set inside every session process of this lab

    def sess(self, steps, data_dir=None, **kw):
        self.nsess += 1
        return {'lab_root': str(self.root), 'src': self.paths['src'], 'data_dir': str(data_dir or self.data_dir), 'log': str(self.log),
                'session': f's{self.nsess}', 'steps': steps, **({'env': self.sess_env} if self.sess_env else {}), **kw}

    def run(self, steps, spawn=False, hashseed=None, timeout=120, data_dir=None, py_flags=(), env_extra=None, **kw):
        s = self.sess(steps, data_dir=data_dir, **kw)
        if spawn or py_flags or env_extra:
            return worker.run_session_spawned(s, hashseed=hashseed, timeout=timeout + 60, py_flags=py_flags, env_extra=env_extra)
        return worker.run_session_forked(s, timeout=timeout)

    def files(self, data_dir=None):
        """relative paths of regular files, symlinks and (empty or not) directories under the data dir"""
        d = Path(data_dir or self.data_dir)
        out = {'files': [], 'dirs': [], 'links': []}
        if not d.exists():
            return out
        for p in sorted(d.rglob('*')):
            rel = str(p.relative_to(d))
            if p.is_symlink():
                out['links'].append(rel)
            elif p.is_dir():
                out['dirs'].append(rel)
            else:
                out['files'].append(rel)
        return out

    def tree_hash(self, dirname):
        """{relative path: sha256} of regular files (symlinks by target) under <lab root>/<dirname>"""
        import hashlib
        d = self.root / dirname
        out = {}
        if not d.exists():
            return out
        for p in sorted(d.rglob('*')):
            if p.is_symlink():
                out[str(p.relative_to(d))] = 'link:' + os.readlink(p)
            elif p.is_file():
                out[str(p.relative_to(d))] = hashlib.sha256(p.read_bytes()).hexdigest()
        return out

    def close(self):
        os.chdir('/')
        shutil.rmtree(self.root, ignore_errors=True)

    def __enter__(self):
        return self

    def __exit__(self, *a):
        self.close()


def session_problem(res):
    """-> reason string if the session could not be used as an observation (harness trouble), else None"""
    if res.get('timeout'):
        return 'session watchdog fired'
    if res.get('harness_error'):
        return 'harness error: ' + res['harness_error'][-600:]
    if res.get('steps') is None:
        return f'session produced no observations (exit {res.get("exit")}) {res.get("stderr", "")[-300:]}'
    return None
