"""Executes one session (a list of steps) in ONE real OS process and reports observations. Workers never judge."""
from __future__ import annotations

import json
import os
import signal
import subprocess
import sys
import tempfile
import time
import traceback
from pathlib import Path

WRITE_EVENTS = {'os.rename', 'os.remove', 'os.rmdir', 'os.mkdir', 'shutil.rmtree', 'shutil.move', 'os.symlink', 'os.truncate',
                'shutil.copyfile', 'shutil.copytree', 'os.link', 'os.utime', 'os.chmod'}


class Audit:
    """sys.addaudithook observer restricted to one directory; optional crash-at-event failpoint."""

    def __init__(self, data_dir):
        self.data_dir = os.path.realpath(str(data_dir))
        self.events = []
        self.enabled = False
        self.rmtree_root = None
        self.crash_at = None        # index of mutating event before which to os._exit(137)
        self.mut_count = 0
        self.after_open = None      # (index, callback) kill right after the open event #index was observed (torn writes)
        sys.addaudithook(self._hook)

    def _rel(self, p):
        try:
            if isinstance(p, bytes):
                p = p.decode()
            if isinstance(p, int):
                return None
            p = os.fspath(p)
        except TypeError:
            return None
        if not os.path.isabs(p):
            if self.rmtree_root:
                return os.path.join(self.rmtree_root, p)
            p = os.path.abspath(p)
        if p == self.data_dir or p.startswith(self.data_dir + os.sep):
            return os.path.relpath(p, self.data_dir)
        rp = os.path.realpath(p)
        if rp == self.data_dir or rp.startswith(self.data_dir + os.sep):
            return os.path.relpath(rp, self.data_dir)
        return None

    def _hook(self, event, args):
        if not self.enabled:
            return
        try:
            if event == 'open':
                path, mode, flags = args
                rel = self._rel(path)
                if rel is None:
                    return
                write = bool(mode and any(c in mode for c in 'wax+')) or bool(flags and (flags & (os.O_WRONLY | os.O_RDWR | os.O_CREAT | os.O_TRUNC | os.O_APPEND)))
                if rel.endswith('.lock'):
                    return
                self._record('open_w' if write else 'open_r', rel, write)
            elif event in WRITE_EVENTS:
                if event == 'shutil.rmtree':
                    rel = self._rel(args[0])
                    if rel is not None:
                        self.rmtree_root = rel
                        self._record(event, rel, True)
                    return
                rels = [self._rel(a) for a in args[:2] if isinstance(a, (str, bytes, os.PathLike))]
                rels = [r for r in rels if r is not None]
                if rels:
                    self._record(event, ' -> '.join(rels), True)
        except Exception:
            pass

    def _record(self, event, rel, mutating):
        if mutating:
            if self.crash_at is not None and self.mut_count == self.crash_at:
                os._exit(137)
            self.mut_count += 1
        self.events.append([event, rel])

    def take(self):
        ev, self.events = self.events, []
        self.rmtree_root = None
        return ev


CTX_CACHE = {}


def build_context(root, lab_root):
    from taskchain.config import Context
    srcs = root.get('context')
    if not srcs:
        return None
    if root.get('context_reuse'):
        # the caller keeps ONE context object (dict / list / Context) and hands it to every Config it builds in this process
        ck = json.dumps([srcs, root.get('context_single', True)], sort_keys=True)
        if ck in CTX_CACHE:
            return CTX_CACHE[ck]
        ctx = build_context({k: v for k, v in root.items() if k != 'context_reuse'}, lab_root)
        CTX_CACHE[ck] = ctx
        return ctx
    from .emit import use_string

    def file_abs(f):
        return str(Path(lab_root) / f)
    out = []
    for s in srcs:
        sk = json.dumps(s, sort_keys=True)
        if root.get('context_reuse_sources') and sk in CTX_CACHE:
            out.append(CTX_CACHE[sk])
            continue
        n_before = len(out)
        if s['kind'] == 'file':
            out.append(file_abs(s['file']) if not s.get('as_path') else Path(file_abs(s['file'])))
        else:
            d = json.loads(json.dumps(s['data']))
            if d.get('uses'):
                d['uses'] = [use_string(u, file_abs) for u in d['uses']]
            if s['kind'] == 'Context':
                out.append(Context(data=d, name=s.get('name', 'ctxobj')))
            else:
                out.append(d)
        if root.get('context_reuse_sources') and len(out) > n_before:
            CTX_CACHE[sk] = out[-1]
    if len(out) == 1 and root.get('context_single', True):
        return out[0]
    return out


class GV:
    def __init__(self, d):
        for k, v in d.items():
            setattr(self, k, v)


def make_config(root, sess, parameter_mode=True):
    from taskchain import Config
    lab_root = sess['lab_root']
    if root.get('file_state'):
        # the user rewrote these config files in place (same path) before building this config
        from .emit import write_config_file
        for fname, f in root['file_state'].items():
            write_config_file(lab_root, fname, f)
    gv = None
    if root.get('global_vars'):
        vals = {k: (str(lab_root) if v == '<LABROOT>' else v) for k, v in root['global_vars']['values'].items()}
        gv = GV(vals) if root['global_vars'].get('kind') == 'object' else dict(vals)
    fp = str(Path(lab_root) / root['file'])
    part = root.get('part')
    kw = {}
    if part and root.get('part_in_path', True):
        fp = fp + '#' + part
    elif part:
        kw['part'] = part
    if root.get('config_name'):
        kw['name'] = root['config_name']
    return Config(Path(root.get('_data_dir') or sess['data_dir']), fp if not root.get('file_as_path') or part else Path(fp), global_vars=gv,
                  context=build_context(root, lab_root), namespace=root.get('namespace'), **kw)


def snapshot(chain, data_dir, light=False):
    from taskchain import Task
    from .runtime import received_canon
    from ..canon import tcanon
    names = {}
    for n, t in chain.tasks.items():
        names.setdefault(id(t), n)
    snap = {}
    for n, t in chain.tasks.items():
        d = {'id': id(t), 'canonical_name': names[id(t)], 'fullname': t.fullname, 'slug': t.slugname, 'cls': type(t).__name__}
        try:
            d['key'] = t.name_for_persistence
            dp = t.data_path
            d['rel_path'] = os.path.relpath(str(dp), data_dir) if dp is not None else None
            d['real_rel_path'] = os.path.relpath(os.path.realpath(str(dp)), os.path.realpath(str(data_dir))) if dp is not None else None
            d['has_data'] = bool(t.has_data)
        except Exception as e:
            d['key_error'] = f'{type(e).__name__}: {e}'
        d['forced'] = bool(t.is_forced)
        if not light:
            d['params'] = {pn: received_canon(p.value) for pn, p in t.params.items()}
            d['persist_repr'] = t.params.repr
            ins = {}
            for k, it in t.input_tasks.items():
                ins[k] = ['task', names.get(id(it), f'<foreign {it!r}>')] if isinstance(it, Task) else ['default', tcanon(it)]
            d['inputs'] = ins
            d['config_name'] = str(t.get_config().get_original_config().name) if hasattr(t.get_config(), 'get_original_config') else None
            d['namespace'] = t.get_config().namespace
        snap[n] = d
    edges = sorted([names.get(id(u), '?'), names.get(id(v), '?')] for u, v in chain.graph.edges) if not light else None
    return {'tasks': snap, 'edges': edges}


def exec_step(step, sess, chains, audit):
    from . import runtime as rt
    from taskchain import MultiChain
    op = step['op']
    obs = {'op': op}
    cid = step.get('chain')
    rt.STATE['chain'] = cid
    data_dir = sess['data_dir']

    def get_chain():
        c = chains[cid]
        if step.get('member') is not None:
            c = c[step['member']]
        return c
    if step.get('data_dir_name'):
        data_dir = str(Path(sess['lab_root']) / step['data_dir_name'])
        if 'root' in step:
            step = dict(step, root=dict(step['root'], _data_dir=data_dir))
    if op == 'build' and step.get('shared_from'):
        from taskchain import Chain
        cfg = make_config(step['root'], sess)
        src = chains[step['shared_from']]
        chains[cid] = Chain(cfg, shared_tasks=src._tasks if hasattr(src, '_tasks') else src._task_registry, parameter_mode=True)
        obs['snapshot'] = snapshot(chains[cid], data_dir)
    elif op == 'build':
        cfg = make_config(step['root'], sess)
        chains[cid] = cfg.chain(parameter_mode=step.get('parameter_mode', True))
        obs['snapshot'] = snapshot(chains[cid], data_dir)
    elif op == 'build_multi':
        cfgs = [make_config(r, sess) for r in step['roots']]
        mc = MultiChain(cfgs, parameter_mode=step.get('parameter_mode', True))
        chains[cid] = mc
        obs['members'] = {name: snapshot(ch, data_dir) for name, ch in mc.chains.items()}
    elif op == 'alias_check':
        # one caller-owned context object handed to two Configs: it must stay deep-equal, and the configs must not share mutables
        import copy
        from ..canon import tcanon
        from taskchain.config import Context
        root = step['root']
        ctx = build_context(root, sess['lab_root'])

        def canon_ctx(c):
            if isinstance(c, Context):
                return ['Context', tcanon(c._data), tcanon(dict(getattr(c, 'for_namespaces', {})))]
            if isinstance(c, list):
                return ['list', [canon_ctx(x) for x in c]]
            return tcanon(c if not isinstance(c, Path) else str(c))
        before = canon_ctx(ctx)
        def mk():
            from taskchain import Config
            gv = None
            if root.get('global_vars'):
                vals = {k: (str(sess['lab_root']) if v == '<LABROOT>' else v) for k, v in root['global_vars']['values'].items()}
                gv = GV(vals) if root['global_vars'].get('kind') == 'object' else dict(vals)
            fp = str(Path(sess['lab_root']) / root['file'])
            if root.get('part'):
                fp += '#' + root['part']
            return Config(Path(data_dir), fp, global_vars=gv, context=ctx, namespace=root.get('namespace'))
        c1 = mk()
        after1 = canon_ctx(ctx)
        ch1 = c1.chain()
        c2 = mk()
        after2 = canon_ctx(ctx)
        ch2 = c2.chain()
        obs['ctx_before'], obs['ctx_after_first'], obs['ctx_after_second'] = before, after1, after2
        s1, s2 = snapshot(ch1, data_dir), snapshot(ch2, data_dir)
        obs['snapshot'] = s1
        obs['snapshot2'] = s2
        # mutate every mutable value reachable from config 1 (all configs of chain 1) in place
        def poison(v, depth=0):
            if isinstance(v, list):
                for x in v:
                    poison(x, depth + 1)
                v.append('POISON')
            elif isinstance(v, dict):
                for x in list(v.values()):
                    poison(x, depth + 1)
                v['POISON'] = 1
            elif type(v).__module__.endswith('lab.runtime') and hasattr(v, '__dict__'):
                # a parameter OBJECT of config 1 changes its state (a model that was trained, a counter): objects of other configs are other objects
                for attr_ in ('a', 'x', '_root'):
                    if hasattr(v, attr_):
                        try:
                            setattr(v, attr_, 'POISONED STATE')
                        except Exception:
                            pass
        for cfg in ch1._configs.values():
            for k, v in cfg.data.items():
                if k not in ('tasks', 'uses', 'excluded_tasks', 'for_namespaces'):
                    poison(v)
        # ... and every mutable parameter value the tasks of chain 1 hold (also values that fell back to a mutable DEFAULT of the declaration)
        for t_ in ch1.tasks.values():
            try:
                for p_ in t_.params._parameters.values():
                    poison(p_.value)
            except Exception:
                pass
        obs['ctx_after_poison'] = canon_ctx(ctx)
        obs['snapshot2_after_poison'] = snapshot(c2.chain(), data_dir)
        c3 = mk()
        obs['snapshot3_after_poison'] = snapshot(c3.chain(), data_dir)
    elif op == 'helper':
        # test helpers vs the real chain: same task class, upstream values and parameter values supplied by hand
        import copy as _copy
        import tempfile as _tf
        from taskchain.utils.testing import TestChain, create_test_task
        from taskchain.utils.clazz import object_to_definition
        from taskchain.parameter import ParameterObject
        real_chain = get_chain()
        real = real_chain.tasks[step['task']]
        cls = type(real)
        ts = cls.LAB_SPEC
        obs['real_vdigest'] = rt.vdigest(real.value) if step.get('compare_real', True) else None
        n_before = len(rt.STATE['records'])
        # parameters: by name_in_config; objects as instances or as definitions; defaults spelled out or omitted
        params, received = {}, {}
        for p in ts['params']:
            v = real.params[p['name']]
            received[p['name']] = v
            nic = p.get('name_in_config') or p['name']
            if 'default' in p and step.get('omit_defaults') and rt.received_canon(v) == rt.received_canon(p['default']):     # typed: 1 is not True
                continue
            if isinstance(v, ParameterObject) and step.get('objects_as_definitions') and hasattr(v, '_taskchain_instantiate_def'):
                params[nic] = _copy.deepcopy(v._taskchain_instantiate_def)
            elif isinstance(v, rt.LabChainObj):
                # an instance handed to the helper: without the reference to the REAL chain it had collected (the helper's chain initialises it again)
                v2 = _copy.copy(v)
                v2._chain = None
                params[nic] = v2
            else:
                params[nic] = v
        for drop in step.get('drop_params', []):
            params.pop(drop, None)
        # mocks: one per explicit input (class or declared name), real upstream value or an arbitrary one
        mocks, explicit_values = {}, []
        arbitrary = step.get('arbitrary_values')
        mock_classes = []
        mocked_real = []
        for i, inp in enumerate([x for x in ts['inputs'] if x['form'] not in ('pattern', 'pattern_all')]):
            key = inp['registry_key'] if inp.get('access') == 'registry' and False else None
            target = None
            for k_, t_ in real.input_tasks.items():
                pass
            it = real.input_tasks.task_list[i] if i < len(real.input_tasks.task_list) else None
            from taskchain import Task as _Task
            if inp.get('in_parameters'):
                # InputTaskParameters come after Meta.input_tasks in the registry order
                meta_n = len([x for x in ts['inputs'] if not x.get('in_parameters')])
                idx = meta_n + [x for x in ts['inputs'] if x.get('in_parameters')].index(inp)
                it = real.input_tasks.task_list[idx] if idx < len(real.input_tasks.task_list) else None
            if isinstance(it, _Task):
                value = it.value if arbitrary is None else arbitrary[i % len(arbitrary)]
                if arbitrary is not None and value == '__callable__':
                    value = len
                if arbitrary is not None and value == '__class__':
                    value = dict
                if arbitrary is not None and value == '__identity__':
                    value = rt.IdentityValue()       # an object that is only equal to itself (e.g. a fitted model without __eq__)
                if arbitrary is not None and value == '__lock__':
                    value = rt.LockHolder()          # an object that cannot be copied
                if inp['form'] == 'class':
                    mk = type(it) if step.get('mock_by_class', True) else type(it).slugname
                    mock_classes.append(type(it).__name__)
                else:
                    # name a mock so that both the declared reference and the name the run body uses resolve to it: namespace part of the
                    # declared reference + group-qualified name of the mocked task
                    ns_part = '::'.join(inp['ref'].split('::')[:-1])
                    mk = (ns_part + '::' if ns_part else '') + type(it).slugname
                    mock_classes.append(type(it).__name__)
                if step.get('skip_mock') == i:
                    explicit_values.append(inp.get('default'))     # a missing optional input falls back to its default
                    continue
                mocks[mk] = value
                explicit_values.append(value)
                mocked_real.append((it, mk))
            else:
                explicit_values.append(it)     # absent optional input: default
        base = Path(_tf.mkdtemp(prefix='helper-', dir=sess['lab_root'])) if step.get('explicit_base_dir') else None
        obs['mock_classes'] = mock_classes
        listed = [cls]
        if step.get('use_test_chain') and step.get('also_listed') and mocked_real:
            # a mocked task that is ALSO listed among the real tasks (e.g. the whole pipeline list is passed): it is mocked all the same.
            # Its parameters are supplied as well (only if that does not change what the tested task receives).
            it, mk_ = mocked_real[step['also_listed'] % len(mocked_real)]
            # only when the mock is registered under the very name the listed class gets in the helper's chain (no namespace part)
            its, extra, ok_ = type(it).LAB_SPEC, {}, type(it) is not cls and (mk_ is type(it) or mk_ == type(it).slugname)
            for p in its['params']:
                nic = p.get('name_in_config') or p['name']
                v = it.params[p['name']]
                for q in ts['params']:
                    if (q.get('name_in_config') or q['name']) == nic and rt.received_canon(received[q['name']]) != rt.received_canon(v):
                        ok_ = False
                if nic in params and rt.received_canon(params[nic]) != rt.received_canon(v):
                    ok_ = False
                extra[nic] = v
                if nic in step.get('drop_params', []):
                    ok_ = False
            if ok_:
                for nic, v in extra.items():
                    params.setdefault(nic, v)
                listed = [cls, type(it)] if step['also_listed'] % 2 else [type(it), cls]
                obs['also_listed'] = type(it).__name__
        for nic_, v_ in list(params.items()):
            if isinstance(v_, rt.LabChainObj) and getattr(v_, '_chain', None) is not None:
                v2_ = _copy.copy(v_)
                v2_._chain = None
                params[nic_] = v2_
        try:
            if step.get('use_test_chain'):
                tc = TestChain(listed, mock_tasks=mocks, parameters=params, base_dir=base)
                helper = tc[cls.fullname(tc.config)]
            else:
                helper = create_test_task(cls, input_tasks=mocks, parameters=params, base_dir=base)
            obs['constructed'] = True
        except Exception as e:
            obs['constructed'] = False
            obs['construct_exc'] = f'{type(e).__name__}: {e}'[:300]
            helper = None
        if helper is not None and step.get('decoy'):
            # before the helper is evaluated, ANOTHER helper of the same class with other parameter values is built (and a fresh real chain):
            # instances of one task class do not share their parameter values
            def _other(v_):
                if isinstance(v_, bool):
                    return not v_
                if isinstance(v_, (int, float)):
                    return v_ + 1
                if isinstance(v_, str):
                    return v_ + '_decoy'
                if isinstance(v_, list):
                    return v_ + ['decoy']
                return v_
            try:
                decoy = create_test_task(cls, input_tasks=mocks, parameters={k_: _other(v_) for k_, v_ in params.items()},
                                         base_dir=Path(_tf.mkdtemp(prefix='decoy-', dir=sess['lab_root'])))
                obs['decoy_built'] = True
            except Exception as e:
                obs['decoy_built'] = False       # (e.g. a dtype no longer fits: not judged)
            # ... and the caller goes on using ITS parameters dict for the next helper: new values under the same keys
            for k_ in list(params):
                try:
                    params[k_] = _other(params[k_])
                except Exception:
                    pass
            if step['decoy'] == 'and_real_chain':
                make_config(real_chain_root, sess).chain() if (real_chain_root := step.get('real_root')) else None
        if helper is not None:
            try:
                hv = helper.value
                obs['helper_vdigest'] = rt.vdigest(hv)
                obs['expected_vdigest'] = rt.expected_vdigest_for(cls, received, explicit_values)
            except Exception as e:
                obs['helper_exc'] = f'{type(e).__name__}: {e}'[:300]
            obs['n_records_after_value'] = len(rt.STATE['records']) - n_before
            if step.get('force_mock') and step.get('use_test_chain') and mocks and 'helper_exc' not in obs:
                # forcing a MOCKED task with recomputation (by the name / class it was given under): the mock stays a mock, the tested task runs again
                try:
                    mk_ = next(iter(mocks))
                    tc.force(mk_ if isinstance(mk_, str) else mk_.fullname(tc.config), recompute=True)
                    obs['force_mock_vdigest'] = rt.vdigest(helper.value)
                except Exception as e:
                    obs['force_mock_exc'] = f'{type(e).__name__}: {e}'[:300]
            obs['helper_base'] = str(helper.get_config().base_dir)
            obs['helper_files'] = sorted(str(p.relative_to(helper.get_config().base_dir)) for p in Path(helper.get_config().base_dir).rglob('*') if p.is_file()) \
                if Path(helper.get_config().base_dir).exists() else []
        if helper is not None and step.get('drop_chain') and step.get('use_test_chain') and 'helper_exc' not in obs and obs.get('constructed'):
            # the TestChain object goes out of scope while its task object is still in use; the stored result is read again through the task
            import gc as _gc
            n_mid = len(rt.STATE['records'])
            had_ = bool(helper.has_data)
            tc = None
            _gc.collect()
            try:
                v2_ = helper.reset_data().value
                obs['after_drop'] = {'vdigest': rt.vdigest(v2_), 'had_data': had_,
                                     'new_runs': len([x for x in rt.STATE['records'][n_mid:] if x['phase'] == 'start'])}
            except Exception as e:
                obs['after_drop'] = {'exc': f'{type(e).__name__}: {e}'[:300], 'had_data': had_}
        obs['helper_runs'] = rt.STATE['records'][n_before:]
        # the helpers' default base dir is a fresh directory under the system temp dir that nobody removes: do it here
        try:
            import shutil as _sh
            for h_ in (helper, locals().get('decoy')):
                b_ = str(h_.get_config().base_dir) if h_ is not None else ''
                if b_.startswith(_tf.gettempdir() + '/tmp') and not b_.startswith(sess['lab_root']):
                    _sh.rmtree(b_, ignore_errors=True)
        except Exception:
            pass
    elif op == 'migrate':
        import contextlib
        import io
        from taskchain.utils.migration import migrate_to_parameter_mode
        cfg = make_config(step['root'], sess)
        target = Path(sess['lab_root']) / step['target_name']
        buf = io.StringIO()
        if step.get('pre_chain'):
            # the caller had a look at the pipeline through this very config object before migrating it
            pre = cfg.chain(parameter_mode=(step['pre_chain'] == 'param'))
            obs['pre_chain_tasks'] = len(pre.tasks)
        with contextlib.redirect_stdout(buf):
            migrate_to_parameter_mode(cfg, target, dry=step.get('dry', True), verbose=step.get('verbose', False))
        obs['printed_lines'] = len(buf.getvalue().splitlines())
    elif op == 'multi_objects':
        # MultiChain over configs given as OBJECTS that reuse one upstream Config object (the style of the repository's own tests)
        from taskchain import Config, MultiChain, Task
        from taskchain.parameter import Parameter
        from ..canon import tcanon

        class ObjBase(Task):
            class Meta:
                parameters = [Parameter('x'), Parameter('y', default=0)]

            def run(self, x, y) -> dict:
                return {'x': x, 'y': y}

        class ObjMid(Task):
            class Meta:
                input_tasks = [ObjBase]
                parameters = [Parameter('w', default='w0')]

            def run(self, obj_base, w) -> dict:
                return {'base': obj_base, 'w': w}

        class ObjTop(Task):
            class Meta:
                input_tasks = [ObjMid]
                parameters = [Parameter('z', default=1)]

            def run(self, obj_mid, z) -> dict:
                return {'mid': obj_mid, 'z': z}
        plan = step['plan']
        dd = Path(data_dir)

        def upstream():
            base = Config(dd, name='base', data={'tasks': [ObjBase], 'x': plan['x0']})
            if plan.get('mid_separate'):
                return Config(dd, name='mid', data={'tasks': [ObjMid], 'uses': [base]})
            return base

        def member(i, m, up):
            data = {'tasks': [ObjTop] if plan.get('mid_separate') else [ObjMid, ObjTop], 'uses': [up]}
            if 'z' in m:
                data['z'] = m['z']
            return Config(dd, name=f'm{i}', data=data, context=json.loads(json.dumps(m['ctx'])) if m.get('ctx') is not None else None)

        def observe(chain):
            out = {}
            for n, t in chain.tasks.items():
                out[n] = {'params': {pn: tcanon(p.value) for pn, p in t.params.items()}, 'key': t.name_for_persistence, 'id': id(t)}
            for n, t in chain.tasks.items():
                out[n]['value'] = tcanon(t.value)
            return out
        shared_up = upstream()
        mc = MultiChain([member(i, m, shared_up) for i, m in enumerate(plan['members'])])
        obs['members'] = {name: observe(ch) for name, ch in mc.chains.items()}
        obs['standalone'] = {}
        for i, m in enumerate(plan['members']):
            obs['standalone'][f'm{i}'] = observe(member(i, m, upstream()).chain())
    elif op == 'snapshot':
        obs['snapshot'] = snapshot(get_chain(), data_dir, light=step.get('light', False))
    elif op == 'value':
        t = get_chain().tasks[step['task']] if step.get('exact', True) else get_chain()[step['task']]
        v = t.value
        obs['vdigest'] = rt.vdigest(v)
        obs['vtype'] = type(v).__name__
        obs['id'] = id(t)
        if step.get('twice'):
            obs['vdigest2'] = rt.vdigest(t.value)
    elif op == 'force':
        c = get_chain()
        if step.get('via') == 'task':
            for n in step['tasks']:
                c.tasks[n].force(**({'delete_data': True} if step.get('delete_data') else {}))
        else:
            targets = step['tasks']
            if step.get('as_objects'):
                targets = [c.tasks[n] for n in targets]
            if len(targets) == 1 and step.get('scalar'):
                targets = targets[0]
            elif step.get('container'):
                # any iterable of names / task objects may be given, also one that can be walked only once
                items = list(targets)
                targets = {'tuple': lambda: tuple(items), 'set': lambda: set(items), 'generator': lambda: (x for x in items),
                           'map': lambda: map(lambda x: x, items), 'dict': lambda: dict.fromkeys(items)}[step['container']]()
            kw = {}
            if step.get('recompute'):
                kw['recompute'] = True
            if step.get('delete_data'):
                kw['delete_data'] = True
            c.force(targets, **kw)
    elif op == 'locale':
        import locale as _locale
        obs['encoding'] = _locale.getpreferredencoding(False)
    elif op == 'reset':
        c = get_chain()
        for n in step['tasks']:
            c.tasks[n].reset_data()
    elif op == 'inspect':
        c = get_chain()
        what = step['what']
        if what == 'tasks_df':
            df = c.tasks_df
            obs['rows'] = len(df)
        elif what == 'has_data':
            obs['has_data'] = {n: bool(t.has_data) for n, t in c.tasks.items()}
        elif what == 'data_path':
            obs['paths'] = {n: (str(t.data_path) if t.data_path is not None else None) for n, t in c.tasks.items()}
        elif what == 'run_info':
            obs['run_info'] = {n: rt.plain_records(t.run_info) for n, t in c.tasks.items()}
        elif what == 'log':
            obs['log'] = {n: t.log for n, t in c.tasks.items()}
        elif what == 'readable':
            c.create_readable_filenames(name=step.get('name'))
        elif what == 'repr':
            obs['repr'] = [repr(c), str(c)][:1]
            _ = [repr(t) + t._repr_markdown_() for t in c.tasks.values()]
            _ = c._repr_markdown_()
        elif what == 'deps_seq':
            # the same closure queries repeated around include_self queries and a force(): answers must not drift
            def plain():
                return {n: [sorted(x.fullname for x in c.required_tasks(t)), sorted(x.fullname for x in c.dependent_tasks(t))] for n, t in c.tasks.items()}
            obs['plain1'] = plain()
            obs['with_self'] = {n: [sorted(x.fullname for x in c.required_tasks(n, include_self=True)),
                                    sorted(x.fullname for x in c.dependent_tasks(n, include_self=True))] for n, t in c.tasks.items()}
            for n in step.get('force', []):
                c.force(n)
            obs['plain2'] = plain()
            obs['dependent_on'] = {n: sorted(m for m, u in c.tasks.items() if u is not t and c.is_task_dependent_on(u, t)) for n, t in c.tasks.items()}
        elif what == 'deps':
            obs['deps'] = {n: sorted(x.fullname for x in c.required_tasks(t)) for n, t in c.tasks.items()}
            obs['dependents'] = {n: sorted(x.fullname for x in c.dependent_tasks(t)) for n, t in c.tasks.items()}
            # (object identities: a task shared between chains keeps the full name of the chain that created it, names alone can be ambiguous)
            obs['deps_ids'] = {n: sorted(id(x) for x in c.required_tasks(t)) for n, t in c.tasks.items()}
            obs['dependents_ids'] = {n: sorted(id(x) for x in c.dependent_tasks(t)) for n, t in c.tasks.items()}
    elif op == 'arm_fault':
        fn = get_chain().tasks[step['task']].fullname     # a shared object runs under its own full name
        on_ = rt.STATE['invocations'].get(fn, 0) + step.get('after', 1)
        rt.STATE['faults'][fn] = {'on': on_, 'until': on_ + step.get('times', 1) - 1, 'kind': step['kind']}
    elif op == 'disarm':
        rt.STATE['faults'].clear()
    elif op == 'drop':
        chains.pop(cid, None)
    elif op == 'crash_at':
        audit.crash_at = step['index']
        audit.mut_count = 0
    elif op == 'rename_profile':
        # failpoint right AFTER a rename/replace returns (the publish points), via the profile hook's c_return events
        state = {'n': 0, 'crash_at': step.get('crash_at')}
        sess['_rename_state'] = state

        def prof(frame, event, arg):
            if event == 'c_return' and getattr(arg, '__name__', '') in ('replace', 'rename') and getattr(arg, '__module__', '') in ('posix', 'os', 'nt'):
                if state['crash_at'] is not None and state['n'] == state['crash_at']:
                    os._exit(137)
                state['n'] += 1
        sys.setprofile(prof)
    elif op == 'rename_profile_stop':
        sys.setprofile(None)
        obs['rename_returns'] = sess.get('_rename_state', {}).get('n', 0)
    elif op == 'poison_params':
        # code that ran earlier in this process modified, in place, the (mutable) parameter values its tasks were given
        def poison(v):
            if isinstance(v, list):
                for x in v:
                    poison(x)
                v.append('POISON')
            elif isinstance(v, dict):
                for x in list(v.values()):
                    poison(x)
                v['POISON'] = 1
        n_ = 0
        for t_ in get_chain().tasks.values():
            for p_ in t_.params._parameters.values():
                try:
                    poison(p_.value)
                    n_ += 1
                except Exception:
                    pass
        obs['poisoned'] = n_
    elif op == 'redefine':
        # the user edits the task declarations and runs the definitions again in the same interpreter (notebook cell / importlib.reload):
        # the classes keep their module and qualified names
        import importlib
        from .emit import emit
        emit(step['spec'], sess['lab_root'])
        importlib.invalidate_caches()
        n_ = 0
        for mname, mod in list(sys.modules.items()):
            if mname.startswith(step['spec']['pkg'] + '.') and getattr(mod, '__file__', None):
                importlib.reload(mod)
                n_ += 1
        obs['reloaded'] = n_
    elif op == 'warm_reprs':
        # earlier use of the parameter-object classes in this interpreter (parent classes before their subclasses)
        obs['reprs'] = [rt.LabObj(a=1).repr(), rt.LabObjPlain(x=1).repr(), rt.LabObjSub(a=1, limit=2).repr(), rt.LabObjVar(a=1, k=2).repr(),
                        rt.LabObjDerived(root='r').repr(), rt.LabObj(a=[1, {'k': 2}], b=4, verbose=True).repr()]
    elif op == 'exit':
        os._exit(step.get('code', 0))
    else:
        raise ValueError(f'unknown op {op}')
    return obs


def run_session(sess):
    sys.path.insert(0, sess['src'])
    if sess.get('env'):
        # environment of this session's process (e.g. TMPDIR on another file system than the data directory)
        os.environ.update(sess['env'])
        tempfile.tempdir = None
    from . import runtime as rt
    rt.STATE.update(log_path=sess.get('log'), session=sess.get('session', 's'), faults={}, invocations={}, records=[], uid=0)
    audit = Audit(sess['data_dir'])
    chains = {}
    out = []
    progress = sess.get('progress')
    for i, step in enumerate(sess['steps']):
        rt.STATE['step'] = i
        n0 = len(rt.STATE['records'])
        audit.take()
        audit.enabled = True
        t0 = time.time()
        try:
            obs = exec_step(step, sess, chains, audit)
            obs['ok'] = True
        except BaseException as e:  # noqa
            obs = {'op': step['op'], 'ok': False, 'exc': type(e).__name__, 'msg': str(e)[:500],
                   'tb': traceback.format_exc()[-1200:] if sess.get('tracebacks') else None}
        audit.enabled = False
        obs['fs'] = audit.take()
        obs['runs'] = rt.STATE['records'][n0:]
        obs['step'] = i
        out.append(obs)
        if progress:
            with open(progress, 'a') as f:
                f.write(json.dumps({'step': i, 'ok': obs['ok']}) + '\n')
    return out


def run_session_forked(sess, timeout=120):
    """fork: the child is a fresh process w.r.t. taskchain state (the parent never builds chains)."""
    fd, outp = tempfile.mkstemp(prefix='labsess-', suffix='.json')
    os.close(fd)
    pid = os.fork()
    if pid == 0:
        code = 0
        try:
            res = run_session(sess)
            with open(outp, 'w') as f:
                json.dump(res, f, default=repr)
        except BaseException:  # noqa
            try:
                with open(outp, 'w') as f:
                    json.dump({'harness_error': traceback.format_exc()[-3000:]}, f)
            except Exception:
                pass
            code = 3
        finally:
            os._exit(code)
    deadline = time.time() + timeout
    status = None
    while time.time() < deadline:
        w, st = os.waitpid(pid, os.WNOHANG)
        if w:
            status = st
            break
        time.sleep(0.002)
    if status is None:
        os.kill(pid, signal.SIGKILL)
        os.waitpid(pid, 0)
        os.unlink(outp)
        return {'timeout': True}
    try:
        txt = Path(outp).read_text()
        res = json.loads(txt) if txt else None
    except Exception as e:
        res = None
    os.unlink(outp)
    code = os.waitstatus_to_exitcode(status)
    if isinstance(res, dict) and 'harness_error' in res:
        return {'harness_error': res['harness_error']}
    return {'exit': code, 'steps': res}


def run_session_spawned(sess, hashseed=None, timeout=180, py_flags=(), env_extra=None):
    """fresh interpreter (own PYTHONHASHSEED; optionally interpreter flags such as -O, or another locale in its environment)."""
    fd, inp = tempfile.mkstemp(prefix='labsess-in-', suffix='.json')
    os.close(fd)
    Path(inp).write_text(json.dumps(sess))
    outp = inp + '.out'
    env = dict(os.environ)
    if hashseed is not None:
        env['PYTHONHASHSEED'] = str(hashseed)
    env.update(env_extra or {})
    try:
        r = subprocess.run([sys.executable, *py_flags, '-m', 'tc_verif.lab.worker', inp, outp], env=env, capture_output=True, text=True, timeout=timeout)
        if os.path.exists(outp):
            res = json.loads(Path(outp).read_text())
            if isinstance(res, dict) and 'harness_error' in res:
                return res
            return {'exit': r.returncode, 'steps': res}
        return {'exit': r.returncode, 'steps': None, 'stderr': r.stderr[-1500:]}
    except subprocess.TimeoutExpired:
        return {'timeout': True}
    finally:
        for p in (inp, outp):
            if os.path.exists(p):
                os.unlink(p)


if __name__ == '__main__':
    from ..core import setup_worker_process
    setup_worker_process()
    sess = json.loads(Path(sys.argv[1]).read_text())
    try:
        res = run_session(sess)
    except BaseException:  # noqa
        res = {'harness_error': traceback.format_exc()[-3000:]}
    Path(sys.argv[2]).write_text(json.dumps(res, default=repr))
