"""Typed canonical form and digests: two values are 'typed-deep-equal' iff their canonical forms are equal.

bool != int, int != float, floats compared bit-wise, mapping order ignored, arrays by dtype+shape+bytes.
"""
from __future__ import annotations

import hashlib
import json
import math
from pathlib import PurePath


def tcanon(v):
    import numpy as np
    import pandas as pd
    if v is None:
        return ['N']
    if isinstance(v, bool):
        return ['b', v]
    if isinstance(v, int):
        return ['i', str(v)]
    if isinstance(v, float):
        return ['f', v.hex()]
    if isinstance(v, str):
        return ['s', [ord(c) for c in v]] if any(0xD800 <= ord(c) <= 0xDFFF for c in v) else ['s', str(v)]
    if isinstance(v, bytes):
        return ['y', v.hex()]
    if isinstance(v, list):
        return ['l', [tcanon(x) for x in v]]
    if isinstance(v, tuple):
        return ['t', [tcanon(x) for x in v]]
    if isinstance(v, dict):
        items = [[tcanon(k), tcanon(x)] for k, x in v.items()]
        items.sort(key=lambda kv: json.dumps(kv[0]))
        return ['d', items]
    if isinstance(v, (set, frozenset)):
        items = sorted((tcanon(x) for x in v), key=json.dumps)
        return ['S', items]
    if isinstance(v, np.ndarray):
        a = np.ascontiguousarray(v) if v.ndim else v
        if v.dtype == object:
            return ['ao', list(v.shape), [tcanon(x) for x in v.ravel().tolist()]]
        return ['a', v.dtype.str, list(v.shape), hashlib.sha256(a.tobytes()).hexdigest()]
    if isinstance(v, np.generic):
        return ['ns', v.dtype.str, hashlib.sha256(v.tobytes()).hexdigest()]
    if isinstance(v, pd.DataFrame):
        return ['df', tcanon(v.index), tcanon(v.columns),
                [[str(v.dtypes.iloc[i]), tcanon(v.iloc[:, i].tolist())] for i in range(v.shape[1])]]
    if isinstance(v, pd.Series):
        return ['sr', tcanon(v.index), str(v.dtype), tcanon(v.name), tcanon(v.tolist())]
    if isinstance(v, pd.MultiIndex):
        return ['mi', tcanon(list(v.names)), [tcanon(list(t)) for t in v.tolist()]]
    if isinstance(v, pd.Index):
        return ['ix', type(v).__name__, str(v.dtype), tcanon(v.name), tcanon(v.tolist())]
    if isinstance(v, pd.Timestamp):
        return ['ts', str(v.value), str(v.tz)]
    if isinstance(v, pd.Timedelta):
        return ['td', str(v.value)]
    if v is pd.NaT:
        return ['nat']
    if isinstance(v, PurePath):
        return ['p', str(v)]
    return ['r', type(v).__module__ + '.' + type(v).__qualname__, repr(v)]


def digest(v) -> str:
    return hashlib.sha256(json.dumps(tcanon(v), sort_keys=False).encode()).hexdigest()[:20]


def teq(a, b) -> bool:
    return tcanon(a) == tcanon(b)


def short(v, n=160):
    r = repr(v)
    return r if len(r) <= n else r[:n] + '…'


def is_finite_json(v) -> bool:
    if isinstance(v, float):
        return math.isfinite(v)
    if isinstance(v, list):
        return all(is_finite_json(x) for x in v)
    if isinstance(v, dict):
        return all(isinstance(k, str) and is_finite_json(x) for k, x in v.items())
    return True
