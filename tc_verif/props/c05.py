"""C05 — a result is visible only when complete (failure and crash atomicity).

Fault enumeration: for a recorded execution of "compute and store one task", the process is killed immediately before EVERY
audited mutating file-system operation, every file opened for writing is left with a torn prefix, and run / generator body /
type check / serialisation are made to raise; a fresh process then checks what a later chain sees.
"""
from __future__ import annotations

import copy
import os
import random
import shutil
from pathlib import Path

from .. import refscheme
from ..core import CaseResult, jhash
from ..lab.harness import Lab, session_problem
from ..lab.ref import Ref

LEVEL = 'fault_enumeration'
RULE = ('case = (data class, first computation | forced recomputation over an existing result, pipeline variant). A recording run lists the audited '
        'mutating file-system events under the data directory (sys.addaudithook: open-for-write, rename, remove, rmdir, mkdir, rmtree, move, ...). '
        'Fault points enumerated for that execution: (a) crash (os._exit inside the audit hook) immediately before event i for EVERY i; (b) for every '
        'file the run opened for writing, prefixes {0, 1, n/2, n-1} of its final content materialised at the path the implementation itself opened, '
        'process killed before the next event; (c) raise points: run raises before / after logging, generator body raises, directory task raises after '
        'writing a file, mistyped result, unserialisable result. After each fault a FRESH process builds the chain: has_data; value (must equal the '
        'reference; zero runs if has_data was true, exactly one run of the task otherwise); second request; for failed directory tasks <key>_error '
        'holds what was written and (first computation) no <key> exists; a failed ContinuesData run keeps <key>_tmp for continuation. '
        'non-trivial = every enumerated fault point; distinct = (data class, mode, fault kind, index)')
REQUIRED = ['input_failure_points', 'delete_then_fresh_chain_checks', 'strace_crosschecks', 'crash_after_rename_points', 'recorded_executions', 'crash_points', 'torn_writes', 'raise_points', 'post_fault_checks', 'recovered_by_recompute', 'complete_result_found',
            'forced_mode_executions', 'error_dirs_checked', 'continues_tmp_checked']
ASSUMPTIONS = ['crash model: process death between audited file operations and torn sequential writes; no power-loss / page-cache reordering',
               'H5Data (native I/O invisible to the audit hook) and FigureData are not exercised',
               'the audit hook sees every mutating operation of the exercised data classes (cross-checked against strace in the thorough tier)']
BUDGET = {'quick': 90, 'thorough': 1500}
EXHAUSTIVE = {'quick': True, 'thorough': True}

KINDS = ['json_dict', 'json_list', 'str', 'int', 'numpy', 'pandas', 'generator', 'lazy', 'listnp', 'dir', 'continues', 'empty_gen', 'empty_listnp', 'empty_dir', 'figure']
RAISE_KINDS = {
    'json_dict': ['raise_before', 'raise_after_log', 'abort_after_log', 'bad_type', 'near_type', 'unserializable'],
    'json_list': ['raise_before', 'raise_after_log', 'abort_after_log', 'bad_type', 'near_type', 'unserializable'],
    'int': ['raise_before', 'raise_after_log', 'abort_after_log', 'bad_type', 'near_type'],
    'str': ['raise_before', 'raise_after_log', 'abort_after_log', 'bad_type', 'near_type'],
    'numpy': ['raise_before', 'raise_after_log', 'abort_after_log', 'bad_type', 'near_type'],
    'pandas': ['raise_before', 'raise_after_log', 'abort_after_log', 'bad_type', 'near_type'],
    'generator': ['raise_before', 'raise_in_generator', 'bad_type', 'near_type'],
    'empty_gen': ['raise_before', 'bad_type', 'near_type'],
    'dir': ['raise_before', 'raise_mid_dir', 'bad_type'],
    'continues': ['raise_before', 'raise_mid_dir'],
    'empty_dir': ['raise_before', 'bad_type'],
    'figure': ['raise_before', 'raise_after_log', 'abort_after_log', 'bad_type', 'unserializable'],
}
DEFAULT_RAISE = ['raise_before', 'raise_after_log', 'abort_after_log', 'bad_type']


C_LOCALE = {'LC_ALL': 'C', 'LANG': 'C', 'PYTHONUTF8': '0', 'PYTHONCOERCECLOCALE': '0'}


def make_spec(kind, variant, rng):
    pkg = 'labf_' + ''.join(rng.choice('abcdefgh') for _ in range(8))
    grp = [None, 'g', 'g:h'][variant % 3]
    x = {'cls': 'Producer', 'data_kind': kind, 'params': [{'name': 'p'}], 'inputs': []}
    if grp:
        x['group'] = grp
    up = {'cls': 'Upstream', 'data_kind': 'json_dict', 'params': [], 'inputs': []}
    tasks = [up, x]
    if variant % 2:
        x['inputs'] = [{'form': 'class', 'ref_class': 'Upstream', 'ref_class_path': f'{pkg}.m.Upstream', 'access': 'index', 'index': 0}]
        if rng.random() < 0.5 or variant % 4 == 3:
            # the input is a run ARGUMENT: it is computed before the run body starts
            x['inputs'] = [{'form': 'class', 'ref_class': 'Upstream', 'ref_class_path': f'{pkg}.m.Upstream', 'access': 'args', 'arg': 'upstream'}]
    tasks.append({'cls': 'Consumer', 'data_kind': 'json_list', 'params': [],
                  'inputs': [{'form': 'class', 'ref_class': 'Producer', 'ref_class_path': f'{pkg}.m.Producer', 'access': 'index', 'index': 0}]})
    spec = {'pkg': pkg, 'modules': [{'name': 'm', 'package': None, 'tasks': tasks}],
            'files': {'cfg/c.json': {'parts': {'': {'tasks': [f'{pkg}.m.*'], 'values': {'p': rng.choice([1, 'v', [1, 2]])}, 'uses': []}}}},
            'context_files': {}, 'fnames': ['cfg/c.json'], 'free_ns_words': ['n'], 'placeholders': None}
    return spec, {'file': 'cfg/c.json'}


def mutating(fs):
    return [e for e in fs if e[0] != 'open_r']


def check_after(lab, ref, root, tname, res, witness, what, data_dir, expect_error_dir=None, first=True, continues_tmp=None, env_extra=None):
    """fresh process: what does a later chain see?"""
    t = ref.tasks[tname]
    steps = [{'op': 'build', 'chain': 'c', 'root': root}, {'op': 'snapshot', 'chain': 'c', 'light': True},
             {'op': 'value', 'chain': 'c', 'task': tname}, {'op': 'value', 'chain': 'c', 'task': tname},
             {'op': 'build', 'chain': 'c2', 'root': root}, {'op': 'value', 'chain': 'c2', 'task': 'consumer'},
             # later still: the result is deleted on request and not recomputed by that chain; nothing of the faulted execution may come back
             {'op': 'force', 'chain': 'c2', 'tasks': [tname], 'delete_data': True},
             {'op': 'build', 'chain': 'c3', 'root': root}, {'op': 'snapshot', 'chain': 'c3', 'light': True}, {'op': 'value', 'chain': 'c3', 'task': tname}]
    r = lab.run(steps, data_dir=data_dir, env_extra=env_extra)
    prob = session_problem(r)
    if prob:
        res.inconclusive.append(prob)
        return
    o = r['steps']
    res.count('post_fault_checks')
    if not o[0]['ok']:
        res.violate(f'{what}: a later chain cannot even be built: {o[0].get("exc")}: {o[0].get("msg")}', witness=witness, facts={'tag': 'build'})
        return
    has = o[1]['snapshot']['tasks'][tname].get('has_data')
    v = o[2]
    runs = [x['task'] for x in v['runs'] if x['phase'] == 'start' and x['task'] == tname]
    mech = mech_of(t['spec']['data_kind'], what)
    if has:
        res.count('complete_result_found')
        if not v['ok']:
            res.violate(f'{what}: a later chain reports has_data but loading fails: {v.get("exc")}: {str(v.get("msg"))[:200]}', mech=mech, witness=witness,
                        facts={'tag': 'visible_unreadable'})
            return
        if v['vdigest'] != t['vdigest']:
            res.violate(f'{what}: a later chain reports has_data and loads a value that is not the complete result (digest {v["vdigest"]}, reference {t["vdigest"]})',
                        mech=mech, witness=witness, facts={'tag': 'visible_partial'})
            return
        if runs:
            res.violate(f'{what}: has_data was true but the task was run again', witness=witness, facts={'tag': 'rerun'})
            return
    else:
        res.count('recovered_by_recompute')
        if not v['ok']:
            res.violate(f'{what}: no result is visible but requesting the value again does not recover: {v.get("exc")}: {str(v.get("msg"))[:200]}', mech=mech,
                        witness=witness, facts={'tag': 'no_recovery'})
            return
        if v['vdigest'] != t['vdigest']:
            res.violate(f'{what}: recomputed value differs from the reference', mech=mech, witness=witness, facts={'tag': 'recompute_wrong'})
            return
        if len(runs) != 1:
            res.violate(f'{what}: recovery executed the task {len(runs)} times', witness=witness, facts={'tag': 'recovery_runs'})
            return
    if continues_tmp:
        saw = [x.get('saw_in_workdir') for x in v['runs'] if x.get('phase') == 'workdir' and x['task'] == tname]
        if saw and continues_tmp not in saw[-1]:
            res.violate(f'{what}: a later chain resumed the task but its work directory no longer held `{continues_tmp}` written by the failed attempt (saw {saw[-1]})',
                        witness=witness, facts={'tag': 'continues_not_resumed'})
            return
    if not o[3]['ok'] or o[3]['vdigest'] != t['vdigest']:
        res.violate(f'{what}: second request of the value fails or differs: {o[3].get("exc")}', mech=mech, witness=witness, facts={'tag': 'second_request'})
        return
    if not o[5]['ok'] or o[5]['vdigest'] != ref.tasks['consumer']['vdigest']:
        res.violate(f'{what}: a downstream task in a further chain fails or computes from a wrong value: {o[5].get("exc")}: {str(o[5].get("msg"))[:150]}', mech=mech,
                    witness=witness, facts={'tag': 'downstream'})
        return
    if o[6]['ok'] and o[7]['ok']:
        res.count('delete_then_fresh_chain_checks')
        if o[8]['snapshot']['tasks'][tname].get('has_data'):
            if not o[9]['ok'] or o[9]['vdigest'] != t['vdigest']:
                res.violate(f'{what}: after the result was deleted on request (force(delete_data=True)), a later chain sees a result again and it is not the complete '
                            f'value (leftovers of the faulted execution came back): {o[9].get("exc")}', mech=mech, witness=witness, facts={'tag': 'leftover_resurrected'})
                return
        elif not o[9]['ok'] or o[9]['vdigest'] != t['vdigest']:
            res.violate(f'{what}: after deleting the result a later chain cannot recompute it: {o[9].get("exc")}: {str(o[9].get("msg"))[:150]}', mech=mech, witness=witness,
                        facts={'tag': 'no_recovery_after_delete'})
            return


def mech_of(kind, what):
    """mechanism class of a violation (for known-finding matching; none are open at present)"""
    return None


def enumerate_faults(kind, mode, variant, rng, res: CaseResult, tmp_other_fs=False):
    other_tmp = None
    if tmp_other_fs:
        # the system's temporary directory lives on another file system than the data directory (a rename between them is impossible)
        import os
        import tempfile
        if not os.path.isdir('/dev/shm') or os.stat('/dev/shm').st_dev == os.stat(tempfile.gettempdir()).st_dev or not os.access('/dev/shm', os.W_OK):
            res.count('no_second_file_system_available')
            return
        other_tmp = tempfile.mkdtemp(prefix='tcv-tmp-', dir='/dev/shm')
    try:
        _enumerate_faults(kind, mode, variant, rng, res, other_tmp)
    finally:
        if other_tmp:
            shutil.rmtree(other_tmp, ignore_errors=True)


def _enumerate_faults(kind, mode, variant, rng, res: CaseResult, other_tmp=None):
    spec, root = make_spec(kind, variant, rng)
    ref = Ref(spec, root)
    assert ref.error is None, ref.error
    slug = next(n for n in ref.tasks if n.endswith('producer'))
    t = ref.tasks[slug]
    forced = mode == 'forced'
    base_witness = {'kind': kind, 'mode': mode, 'variant': variant, 'spec': spec, 'root': root}
    with Lab(spec) as lab:
        if other_tmp:
            lab.sess_env = {'TMPDIR': other_tmp}
            base_witness['TMPDIR'] = 'on another file system (/dev/shm) than the data directory'
            res.count('executions_with_tmpdir_on_another_file_system')
        golden = lab.root / 'golden'
        pre = [{'op': 'build', 'chain': 'c', 'root': root}, {'op': 'value', 'chain': 'c', 'task': slug}]
        # the state before the faulted execution: empty store (first) or complete result present (forced)
        if forced:
            r0 = lab.run(pre, data_dir=golden)
            if session_problem(r0) or not all(o['ok'] for o in r0['steps']):
                res.inconclusive.append(f'could not prepare the existing result for {kind}: {session_problem(r0) or [o for o in r0["steps"] if not o["ok"]][:1]}')
                return

        def fresh_dir(name):
            d = lab.root / name
            if d.exists():
                shutil.rmtree(d)
            if forced:
                shutil.copytree(golden, d, symlinks=True)
            return d

        def faulted_steps(extra):
            st = [{'op': 'build', 'chain': 'c', 'root': root}]
            if forced:
                st.append({'op': 'force', 'chain': 'c', 'tasks': [slug], 'via': 'task'})
            return st + extra + [{'op': 'value', 'chain': 'c', 'task': slug}]
        # ---- recording run -------------------------------------------------------------------------------------------
        rec_dir = fresh_dir('rec')
        rr = lab.run(faulted_steps([]), data_dir=rec_dir)
        if session_problem(rr) or not rr['steps'][-1]['ok']:
            res.inconclusive.append(f'recording run failed for {kind}/{mode}: {session_problem(rr) or rr["steps"][-1]}')
            return
        res.count('recorded_executions')
        if forced:
            res.count('forced_mode_executions')
        events = mutating(rr['steps'][-1]['fs'])
        res.extra.setdefault('events_per_execution', {})[f'{kind}/{mode}'] = len(events)
        final_bytes = {}
        for ev, p in events:
            if ev == 'open_w':
                fp = rec_dir / p
                if fp.is_file():
                    final_bytes[p] = fp.read_bytes()
        # ---- (a) crash before every mutating event -------------------------------------------------------------------
        for i, (ev, p) in enumerate(events):
            d = fresh_dir('crash')
            r = lab.run(faulted_steps([{'op': 'crash_at', 'index': i}]), data_dir=d)
            if r.get('exit') != 137:
                res.inconclusive.append(f'{kind}/{mode}: crash point {i} ({ev} {p}) was not reached (exit {r.get("exit")})')
                continue
            res.count('crash_points')
            res.nt(jhash([kind, mode, variant, 'crash', i]))
            what = f'{kind} ({mode}): process killed immediately before file operation #{i} `{ev} {p}`'
            check_after(lab, ref, root, slug, res, dict(base_witness, fault=['crash', i, ev, p]), what, d)
        # ---- (a') crash immediately AFTER every rename/replace returned (publish points; buffers not yet flushed/closed) -----------------
        rp = lab.run(faulted_steps([{'op': 'rename_profile'}]) + [{'op': 'rename_profile_stop'}], data_dir=fresh_dir('renp'))
        n_ren = 0
        if not session_problem(rp) and rp['steps'][-1]['ok']:
            n_ren = rp['steps'][-1].get('rename_returns', 0)
        for k in range(n_ren):
            d = fresh_dir('crashren')
            r = lab.run(faulted_steps([{'op': 'rename_profile', 'crash_at': k}]), data_dir=d)
            if r.get('exit') != 137:
                res.inconclusive.append(f'{kind}/{mode}: crash point after rename #{k} was not reached (exit {r.get("exit")})')
                continue
            res.count('crash_after_rename_points')
            res.nt(jhash([kind, mode, variant, 'crash_after_rename', k]))
            what = f'{kind} ({mode}): process killed immediately after rename/replace #{k} returned'
            check_after(lab, ref, root, slug, res, dict(base_witness, fault=['crash_after_rename', k]), what, d)
        # ---- (b) torn prefix of every file written -------------------------------------------------------------------
        open_idx = [(i, p) for i, (ev, p) in enumerate(events) if ev == 'open_w']
        for i, p in open_idx:
            content = final_bytes.get(p)
            if content is None:
                # a file that no longer exists at the end (temporary name): take the content of the file it was renamed/moved to if we can tell
                target = next((e[1].split(' -> ')[1] for e in events[i:] if e[0] in ('os.rename', 'shutil.move') and e[1].startswith(p + ' -> ')), None)
                content = (rec_dir / target).read_bytes() if target and (rec_dir / target).is_file() else None
            if content is None:
                continue
            n = len(content)
            for L in sorted({0, 1, n // 2, max(0, n - 1)}):
                if L >= n and n > 0:
                    continue
                d = fresh_dir('torn')
                r = lab.run(faulted_steps([{'op': 'crash_at', 'index': i + 1}]), data_dir=d)
                if i + 1 < len(events) and r.get('exit') != 137:
                    res.inconclusive.append(f'{kind}/{mode}: torn write point after event {i} not reached')
                    continue
                fp = d / p
                if not fp.parent.exists():
                    continue
                fp.write_bytes(content[:L])
                res.count('torn_writes')
                res.nt(jhash([kind, mode, variant, 'torn', i, L]))
                what = f'{kind} ({mode}): process killed while writing `{p}` ({L} of {n} bytes on disk)'
                check_after(lab, ref, root, slug, res, dict(base_witness, fault=['torn', i, p, L, n]), what, d)
        # ---- (c) raise points ----------------------------------------------------------------------------------------
        for fk, repeats in [(fk_, rp_) for fk_ in RAISE_KINDS.get(kind, DEFAULT_RAISE) for rp_ in (1, 2)]:
            d = fresh_dir('raise')
            # repeats == 2: the same request fails twice in a row (the second failure meets what the first one left behind) before the cause is removed
            steps = faulted_steps([{'op': 'arm_fault', 'chain': 'c', 'task': slug, 'kind': fk, 'times': repeats}]) + [{'op': 'value', 'chain': 'c', 'task': slug}] * (repeats - 1) \
                + [{'op': 'disarm', 'chain': 'c'}, {'op': 'value', 'chain': 'c', 'task': slug}]
            r = lab.run(steps, data_dir=d)
            if session_problem(r):
                res.inconclusive.append(session_problem(r))
                continue
            res.count('raise_points')
            if repeats == 2:
                res.count('repeated_failures')
            res.nt(jhash([kind, mode, variant, 'raise', fk, repeats]))
            failed, retry = r['steps'][-3], r['steps'][-1]
            what = f'{kind} ({mode}): {fk}' + (' twice in a row' if repeats == 2 else '')
            witness = dict(base_witness, fault=['raise', fk, repeats])
            if repeats == 2 and not failed['ok'] and not r['steps'][-4]['ok'] and failed.get('exc') != r['steps'][-4].get('exc'):
                res.violate(f'{what}: the second failing attempt raised {failed.get("exc")}: {str(failed.get("msg"))[:150]} instead of the error of the run '
                            f'({r["steps"][-4].get("exc")})', witness=witness, facts={'tag': 'second_failure_other_error'})
            if failed['ok']:
                res.violate(f'{what}: the failing computation returned a value instead of raising', witness=witness, facts={'tag': 'fault_swallowed'})
                continue
            # same process, same chain object: requesting again must recover
            if not retry['ok'] or retry['vdigest'] != t['vdigest']:
                res.violate(f'{what}: requesting the value again from the same chain does not recover: {retry.get("exc")}: {str(retry.get("msg"))[:200]}', witness=witness,
                            facts={'tag': 'same_chain_recovery'})
            # and for later chains, from the state right after the failure (before the retry): replay without the retry
            d2 = fresh_dir('raise2')
            r2 = lab.run(steps[:-2], data_dir=d2)
            if session_problem(r2):
                res.inconclusive.append(session_problem(r2))
                continue
            key = t['key']
            tdir = d2 / refscheme.rel_dir(t['slug'])
            if kind in ('dir', 'empty_dir') and fk in ('raise_mid_dir', 'bad_type', 'raise_before'):
                res.count('error_dirs_checked')
                err = tdir / f'{key}_error'
                if not err.is_dir():
                    res.violate(f'{what}: the work directory of the failed directory task was not set aside as {key}_error', witness=witness, facts={'tag': 'error_dir'})
                elif fk == 'raise_mid_dir' and not (err / 'prov.txt').exists():
                    res.violate(f'{what}: {key}_error does not hold what the failed run had written', witness=witness, facts={'tag': 'error_dir_content'})
                if not forced and (tdir / key).exists():
                    res.violate(f'{what}: a failed first computation left a visible result directory', witness=witness, facts={'tag': 'visible_after_failure'})
            if kind == 'continues' and fk == 'raise_mid_dir':
                # the retry in the same chain must have found what the failed attempt wrote
                saw = [x.get('saw_in_workdir') for x in retry['runs'] if x.get('phase') == 'workdir' and x['task'] == slug]
                if retry['ok'] and (not saw or 'prov.txt' not in saw[-1]):
                    res.violate(f'{what}: the retry of the resumable task did not find the files of the failed attempt in its work directory (saw {saw})',
                                witness=witness, facts={'tag': 'continues_not_resumed'})
                res.count('continues_tmp_checked')
                tmpd = tdir / f'{key}_tmp'
                if not (tmpd / 'prov.txt').exists():
                    res.violate(f'{what}: the work directory of the resumable task ({key}_tmp) lost what the failed run had written', witness=witness,
                                facts={'tag': 'continues_tmp'})
            if kind == 'continues' and fk == 'raise_mid_dir' and forced:
                # the interrupted forced recomputation left pending work beside the finished result; a chain that merely READS the finished result
                # leaves that work alone, a later forced request continues it
                d3 = lab.root / 'raise3'
                if d3.exists():
                    shutil.rmtree(d3)
                shutil.copytree(d2, d3, symlinks=True)
                r3 = lab.run([{'op': 'build', 'chain': 'c', 'root': root}, {'op': 'value', 'chain': 'c', 'task': slug},
                              {'op': 'build', 'chain': 'c2', 'root': root}, {'op': 'force', 'chain': 'c2', 'tasks': [slug], 'via': 'task'},
                              {'op': 'value', 'chain': 'c2', 'task': slug}], data_dir=d3)
                if session_problem(r3):
                    res.inconclusive.append(session_problem(r3))
                else:
                    res.count('pending_work_beside_a_finished_result_checked')
                    o3 = r3['steps']
                    if o3[1]['ok'] and [x for x in o3[1]['runs'] if x['phase'] == 'start']:
                        res.violate(f'{what}: a later chain ran the task again although the finished result is stored', witness=witness, facts={'tag': 'rerun'})
                    saw3 = [x.get('saw_in_workdir') for x in o3[4]['runs'] if x.get('phase') == 'workdir' and x['task'] == slug] if o3[4]['ok'] else None
                    if saw3 is not None and (not saw3 or 'prov.txt' not in saw3[-1]):
                        res.violate(f'{what}: after a chain had merely loaded the finished result, the next forced request no longer found the pending work of the '
                                    f'interrupted attempt in its work directory (saw {saw3})', witness=witness, facts={'tag': 'continues_not_resumed'})
            check_after(lab, ref, root, slug, res, witness, what + ' (later chain)', d2,
                        continues_tmp='prov.txt' if (kind == 'continues' and fk == 'raise_mid_dir') else None)
        # ---- (d) the failure comes from an INPUT task (transient), then the same chain is asked again -------------------------------------
        if variant % 2 and not forced:
            for fk in ('raise_before', 'raise_after_log'):
                d = fresh_dir('inraise')
                steps = [{'op': 'build', 'chain': 'c', 'root': root}, {'op': 'arm_fault', 'chain': 'c', 'task': 'upstream', 'kind': fk},
                         {'op': 'value', 'chain': 'c', 'task': slug}, {'op': 'disarm', 'chain': 'c'}, {'op': 'value', 'chain': 'c', 'task': slug},
                         {'op': 'value', 'chain': 'c', 'task': 'consumer'}]
                r = lab.run(steps, data_dir=d)
                if session_problem(r):
                    res.inconclusive.append(session_problem(r))
                    continue
                res.count('input_failure_points')
                failed, retry, cons = r['steps'][2], r['steps'][4], r['steps'][5]
                what = f'{kind} ({mode}): input task fails with {fk}'
                witness = dict(base_witness, fault=['input_raise', fk])
                if failed['ok']:
                    res.violate(f'{what}: the request returned a value although its input task raised', witness=witness, facts={'tag': 'fault_swallowed'})
                    continue
                if not retry['ok'] or retry['vdigest'] != t['vdigest']:
                    res.violate(f'{what}: requesting the value again from the same chain does not recover: {retry.get("exc")}: {str(retry.get("msg"))[:200]}',
                                witness=witness, facts={'tag': 'same_chain_recovery_after_input_failure'})
                elif not cons['ok']:
                    res.violate(f'{what}: the downstream task cannot be computed after the recovery: {cons.get("exc")}', witness=witness, facts={'tag': 'downstream'})
                stray = [p_ for p_ in (d / refscheme.rel_dir(t['slug'])).glob('*_tmp*')] if (d / refscheme.rel_dir(t['slug'])).exists() else []
                if kind in ('dir', 'empty_dir') and retry['ok'] and stray:
                    res.violate(f'{what}: work directories left behind after the successful retry: {[s_.name for s_ in stray]}', witness=witness, facts={'tag': 'stray_workdir'})
        # ---- (f) a resumable computation whose run returns without finishing: nothing is visible, not even to the chain that ran it ---------------
        if kind == 'continues' and not forced:
            d = fresh_dir('nofinish')
            steps = [{'op': 'build', 'chain': 'c', 'root': root}, {'op': 'arm_fault', 'chain': 'c', 'task': slug, 'kind': 'no_finish'}, {'op': 'value', 'chain': 'c', 'task': slug},
                     {'op': 'inspect', 'chain': 'c', 'what': 'has_data'}, {'op': 'inspect', 'chain': 'c', 'what': 'tasks_df'}, {'op': 'disarm', 'chain': 'c'}]
            r = lab.run(steps, data_dir=d)
            if session_problem(r):
                res.inconclusive.append(session_problem(r))
            else:
                res.count('unfinished_resumable_runs')
                what = f'{kind} ({mode}): run returned without calling finished()'
                witness = dict(base_witness, fault=['no_finish'])
                hd = r['steps'][3]
                if hd['ok'] and hd['has_data'].get(slug):
                    res.violate(f'{what}: the chain that ran it reports has_data although the result was never finished (no result directory exists)', witness=witness,
                                facts={'tag': 'visible_unfinished'})
                else:
                    check_after(lab, ref, root, slug, res, witness, what + ' (later chain)', d)
        # ---- (e) the result holds text that the process's locale encoding cannot express (interpreter started with the C locale) ------------------
        if kind in ('json_dict', 'json_list', 'str', 'generator'):
            d = fresh_dir('locale')
            steps = faulted_steps([{'op': 'arm_fault', 'chain': 'c', 'task': slug, 'kind': 'non_ascii'}]) + [{'op': 'disarm', 'chain': 'c'}, {'op': 'locale'}]
            r = lab.run(steps, data_dir=d, env_extra=C_LOCALE)
            enc = (r.get('steps') or [{}])[-1].get('encoding') if not session_problem(r) else None
            if session_problem(r) or not enc or enc.lower().replace('-', '') == 'utf8':
                res.inconclusive.append(f'could not run a session in a non-UTF-8 locale: {session_problem(r) or enc}')
            else:
                res.count('non_ascii_results_in_c_locale')
                attempt = r['steps'][-3]
                what = f'{kind} ({mode}): result with non-ASCII text, computed by a process whose locale encoding is {enc}'
                witness = dict(base_witness, fault=['non_ascii', enc], env=C_LOCALE)
                if not attempt['ok']:
                    # storing failed: nothing (new) may be visible, later processes of the same locale compute the ordinary result
                    res.count('non_ascii_store_refused')
                    check_after(lab, ref, root, slug, res, witness, what + ' (storing failed; later chain, same locale)', d, env_extra=C_LOCALE)
                else:
                    # stored: then a later chain in the same locale finds it and loads the very value the computing chain returned
                    r2 = lab.run([{'op': 'build', 'chain': 'c', 'root': root}, {'op': 'snapshot', 'chain': 'c', 'light': True}, {'op': 'value', 'chain': 'c', 'task': slug}],
                                 data_dir=d, env_extra=C_LOCALE)
                    if session_problem(r2):
                        res.inconclusive.append(session_problem(r2))
                    else:
                        o2 = r2['steps']
                        has = o2[0]['ok'] and o2[1]['ok'] and o2[1]['snapshot']['tasks'][slug].get('has_data')
                        if not has:
                            res.violate(f'{what}: the computation returned a value but a later chain sees no result', witness=witness, facts={'tag': 'locale_lost'})
                        elif not o2[2]['ok']:
                            res.violate(f'{what}: the computation returned normally and a later chain of the same locale reports has_data, but loading fails: '
                                        f'{o2[2].get("exc")}: {str(o2[2].get("msg"))[:160]}', witness=witness, facts={'tag': 'visible_unreadable'})
                        elif o2[2]['vdigest'] != attempt['vdigest']:
                            res.violate(f'{what}: a later chain of the same locale loads another value than the computing chain returned', witness=witness,
                                        facts={'tag': 'visible_partial'})
    if res.sample is None:
        res.sample = {'kind': kind, 'mode': mode, 'events': events[:12]}


STRACE_RE = None


def strace_crosscheck(kind, variant, rng, res: CaseResult):
    """thorough tier: the set of data-dir paths mutated according to strace must equal the set seen by the audit hook
    (guards against a blind spot of the failpoint mechanism, e.g. a native writer)"""
    import json
    import re
    import subprocess
    import sys
    import tempfile
    spec, root = make_spec(kind, variant, rng)
    ref = Ref(spec, root)
    slug = next(n for n in ref.tasks if n.endswith('producer'))
    with Lab(spec) as lab:
        d = lab.root / 'st'
        sess = lab.sess([{'op': 'build', 'chain': 'c', 'root': root}, {'op': 'value', 'chain': 'c', 'task': slug}], data_dir=d)
        inp, outp, stp = lab.root / 'sess.json', lab.root / 'sess.out', lab.root / 'strace.out'
        inp.write_text(json.dumps(sess))
        cmd = ['strace', '-f', '-qq', '-e', 'trace=openat,open,creat,rename,renameat,renameat2,unlink,unlinkat,mkdir,mkdirat,rmdir,symlink,symlinkat,link,linkat,truncate',
               '-o', str(stp), sys.executable, '-m', 'tc_verif.lab.worker', str(inp), str(outp)]
        try:
            r = subprocess.run(cmd, capture_output=True, text=True, timeout=300)
        except Exception as e:
            res.inconclusive.append(f'strace run failed: {e}')
            return
        if not outp.exists():
            res.inconclusive.append(f'strace session produced no output: {r.stderr[-300:]}')
            return
        steps = json.loads(outp.read_text())
        if isinstance(steps, dict) or not steps[-1]['ok']:
            res.inconclusive.append(f'strace session failed: {str(steps)[:300]}')
            return
        audit_paths = set()
        for st in steps:
            for ev, p in st['fs']:
                if ev == 'open_r':
                    continue
                for part in p.split(' -> '):
                    audit_paths.add(part)
        dd = str(d.resolve())
        strace_paths = set()
        for line in stp.read_text(errors='replace').splitlines():
            if ' = -1 ' in line and 'EEXIST' not in line:
                continue
            m = re.search(r'(openat|open|creat|rename|renameat2?|unlink|unlinkat|mkdir|mkdirat|rmdir|symlink|symlinkat|link|linkat|truncate)\((.*)\)\s+=', line)
            if not m:
                continue
            call, args = m.group(1), m.group(2)
            if call in ('openat', 'open') and not re.search(r'O_WRONLY|O_RDWR|O_CREAT|O_TRUNC|O_APPEND', args):
                continue
            for q in re.findall(r'"((?:[^"\\]|\\.)*)"', args):
                if q.startswith(dd + '/'):
                    rel = q[len(dd) + 1:]
                    if not rel.endswith('.lock'):
                        strace_paths.add(rel)
        # dir_fd-relative syscalls inside rmtree show bare names in strace: compare on the paths strace can attribute
        res.count('strace_crosschecks')
        res.count('strace_paths', len(strace_paths))
        missing = {p for p in strace_paths if p not in audit_paths and not any(a == p or a.startswith(p + '/') or p.startswith(a + '/') for a in audit_paths)}
        if missing:
            res.violate(f'{kind}: strace shows mutations of data-dir paths that the audit hook (the failpoint mechanism) never saw: {sorted(missing)[:6]}',
                        witness={'kind': kind, 'variant': variant}, facts={'tag': 'audit_blind_spot'})
        res.nt(jhash([kind, variant, 'strace']))
        res.sample = {'kind': kind, 'strace_paths': sorted(strace_paths)[:8]}


def run_case(case) -> CaseResult:
    res = CaseResult()
    rng = random.Random(case['seed'])
    if case.get('strace'):
        strace_crosscheck(case['kind'], case['variant'], rng, res)
        return res
    enumerate_faults(case['kind'], case['mode'], case['variant'], rng, res, tmp_other_fs=case.get('tmp_other_fs', False))
    vc = res.extra.setdefault('violation_classes', {})
    for v in res.violations:
        f = (v.get('witness') or {}).get('fault') or ['?']
        k = f"{case['kind']}/{case['mode']}/{f[0]}{':' + str(f[1]) if f[0] == 'raise' else ''}/{(v.get('facts') or {}).get('tag')}"
        vc[k] = vc.get(k, 0) + 1
    return res


def cases(tier, seed):
    rng = random.Random(f'c05-{seed}')
    variants = [0, 1] if tier == 'quick' else [0, 1, 2, 3, 4, 5]
    for v in variants:
        for kind in KINDS:
            for mode in ('first', 'forced'):
                yield {'kind': kind, 'mode': mode, 'variant': v, 'seed': rng.randrange(1 << 30)}
    # the same enumeration with the system's temporary directory on another file system than the data directory
    for kind in (KINDS if tier == 'thorough' else ['json_dict', 'numpy', 'pandas', 'generator', 'listnp', 'dir']):
        if kind in KINDS:
            for mode in (('first', 'forced') if tier == 'thorough' else (rng.choice(['first', 'forced']),)):
                yield {'kind': kind, 'mode': mode, 'variant': 1, 'seed': rng.randrange(1 << 30), 'tmp_other_fs': True}
    # audit hook vs strace (one per data class; the quick tier runs three of them)
    for kind in (KINDS if tier == 'thorough' else ['json_dict', 'numpy', 'dir']):
        yield {'strace': True, 'kind': kind, 'variant': 1, 'seed': rng.randrange(1 << 30)}
