"""C01 — a chain never returns a stale or foreign result."""
from __future__ import annotations

import random
from collections import Counter

from ..core import CaseResult, jhash
from ..lab import spec as S
from ..lab.harness import Lab
from ..lab.history import evaluate_history, gen_history, make_variants
from ..lab.ref import Ref

LEVEL = 'exploration'
RULE = ('case = history of 1-3 sessions (real OS processes, some freshly spawned with another PYTHONHASHSEED) x 2-3 chains each over ONE data '
        'directory, chains built from a family of related configurations of one generated pipeline (other context, other root namespace, other '
        'multi-config part, copied config file with one value changed, the same file mounted under several namespaces with per-namespace values), '
        'value requests on arbitrary tasks in arbitrary order, forcing (all flag combinations), injected run failures followed by retries, '
        'inspections. Every generated run returns a provenance value = hash(task, persisted parameters in placeholder form, digests of the '
        'input values it read), so a stale or foreign result cannot coincide with the right one. oracle = reference evaluation of the '
        'chain\'s current configuration. non-trivial = history in which >=1 value was loaded from storage; distinct = hash(spec files, roots, sessions)')
REQUIRED = ['histories', 'values_observed', 'prov_computed_now', 'prov_in_memory', 'prov_loaded', 'prov_loaded_other_process',
            'prov_loaded_written_by_other_config', 'force_steps', 'faulted_requests', 'spawned_sessions']
ASSUMPTIONS = ['task computations are deterministic functions of declared parameters and inputs (generated tasks are)',
               'parameter mode only; reference semantics as in DESIGN.md Appendix A']
BUDGET = {'quick': 75, 'thorough': 1500}
WANT = {'C01', 'C08'}
OPTS = {'max_sessions': 3, 'max_chains': 3, 'max_requests': 5, 'p_inspect': 0.1, 'p_force': 0.12, 'p_reset': 0.05, 'p_poison': 0.25, 'p_fault': 0.08, 'p_spawn': 0.15}


def run_history_case(rng, res: CaseResult, want, opts, feat=None, n_variants=3, at_most_once=False, name_mode=False):
    if name_mode:
        # name mode: results are addressed by config name; one file is never mounted twice (two mounts would share a location by design)
        feat = dict(feat or {}, same_file_twice=False, dup_module_file=False)
        opts = dict(opts, parameter_mode=False, p_fault=0.0)      # (faults are exercised in parameter-mode histories)
        res.count('name_mode_histories')
    fam = rng.random()
    if fam < 0.08 and not name_mode:
        spec, roots = S.namesake_spec(rng, feat)
        res.count('namesake_family_histories')
    elif fam < 0.3 and not name_mode:
        spec, roots = S.twin_spec(rng, feat)
        res.count('twin_family_histories')
    elif fam < 0.37 and not name_mode:
        # a namespace word repeated along a mount path (W::leaf next to W::W::leaf), contexts addressing one of them
        spec, root_ = S.repeated_ns_spec(rng)
        roots = [root_, {'file': root_['file']}]
        res.count('repeated_namespace_family_histories')
    else:
        spec = S.gen_spec(rng, feat)
        roots = make_variants(rng, spec, rng.randint(2 if name_mode else 1, n_variants), feat, prefer_file_variants=name_mode)
    refs = [Ref(spec, r, parameter_mode=not name_mode) for r in roots]
    if any(r.get('file_state') for r in roots):
        res.count('histories_with_files_rewritten_in_place')
    if name_mode:
        for r_ in refs:
            seen_fp = set()
            for (ns_, file_, part_) in r_.instances:
                if (file_, part_) in seen_fp:
                    res.count('generator_rejects')
                    return
                seen_fp.add((file_, part_))
    if any(r.error is not None or not r.tasks for r in refs):
        res.count('generator_rejects')
        return
    sessions = gen_history(rng, spec, roots, refs, opts)
    counters = Counter()
    with Lab(spec) as lab:
        disc, trouble = evaluate_history(lab, spec, roots, refs, sessions, counters, want)
    if trouble:
        res.inconclusive.append(trouble)
        return
    res.count('histories')
    rpl = counters.pop('_runs_per_location', {})
    for k, v in counters.items():
        res.count(k, v)
    witness = {'spec': spec, 'roots': roots, 'sessions': sessions}
    if at_most_once:
        for loc, n in rpl.items():
            res.count('locations_run_once_checked')
            if n > 1:
                disc.append({'prop': 'C04', 'tag': 'ran_twice', 'what': f'location {loc} was computed {n} times in a history without forcing, failure or deletion'})
    for d in disc:
        res.violate(d['what'], facts={'tag': d['tag'], 'prop': d['prop']}, witness=witness)
    if counters['prov_loaded'] or counters.get('force_steps'):
        res.nt(jhash([spec['files'], roots, sessions]))
    if res.sample is None:
        res.sample = {'roots': roots[:2], 'sessions': [{'spawn': s['spawn'], 'steps': [{k: v for k, v in st.items() if k != 'root'} for st in s['steps'][:12]]} for s in sessions[:2]]}


def run_case(case) -> CaseResult:
    res = CaseResult()
    rng = random.Random(case['seed'])
    for i in range(case['n']):
        run_history_case(rng, res, WANT, OPTS)
        if len(res.violations) > 3:
            break
    return res


def cases(tier, seed):
    rng = random.Random(f'c01-{seed}')
    n = 140 if tier == 'quick' else 5000
    for i in range(n):
        yield {'n': 2, 'seed': rng.randrange(1 << 30)}
