"""C13 — a MultiChain is its chains, sharing identical tasks."""
from __future__ import annotations

import copy
import json
import random
from collections import Counter

from ..core import CaseResult, jhash
from ..lab import spec as S
from ..lab.harness import Lab, session_problem
from ..lab.history import Model, Obj
from ..lab.oracle import compare_build, compare_closures
from ..lab.ref import Ref

LEVEL = 'exploration'
RULE = ('case = MultiChain over 2-5 configs of one generated pipeline (copies of the root config under other names with values changed at any depth, '
        'other contexts, other parts, other root namespaces; overlapping sub-pipelines through shared `uses`) + a sequence of value requests and '
        'force calls across the member chains, in one real process. oracle: every member == reference evaluation of its own config (names, keys, '
        'locations, parameter values, input bindings, values); two member tasks are one object iff their reference computation descriptors are equal; '
        'a value obtained through one member is served to the others without run and without reading the store again (audit hook); '
        'MultiChain.force marks in every member exactly the closure of the named tasks. non-trivial = >=2 members sharing >=1 task object and '
        'differing in >=1 task; distinct = hash(files, roots, steps)')
REQUIRED = ['multi_force_by_bare_string', 'chains_on_shared_registry', 'object_config_multichains', 'multichains', 'members_compared', 'identity_pairs_same', 'identity_pairs_different', 'values_observed', 'served_from_memory_across_members',
            'multi_force_steps']
ASSUMPTIONS = ['member configs have distinct names (MultiChain requires it)',
               'how often a task shared between members is recomputed by MultiChain.force(recompute=True) is not judged (one pass per chain)']
BUDGET = {'quick': 60, 'thorough': 1200}


def multi_roots(rng, spec, base_root, k):
    """k roots with distinct config names over one spec"""
    roots = []
    # members whose contexts are LISTS of files with the same file names in different directories ([base.json, exp_a/override.json] vs
    # [base.json, exp_b/override.json]) overriding a value of a config that every member `uses`
    same_stem = None
    if rng.random() < 0.3:
        r0 = Ref(spec, {kk: v for kk, v in base_root.items() if kk != 'context'})
        if r0.error is None:
            sites = [(inst, k_, v_) for inst in r0.instances.values() for k_, v_ in inst['values'].items()
                     if not (isinstance(v_, dict) and 'class' in v_) and inst['file'] != base_root['file']]
            if sites:
                same_stem = rng.choice(sites)
                spec['context_files']['ctxs/base.json'] = {'zz_unused_key': 1}
    for i in range(k):
        root = copy.deepcopy({kk: v for kk, v in base_root.items() if kk != 'context'})
        fname = root['file']
        f = copy.deepcopy(spec['files'][fname])
        r = rng.random()
        if r < 0.6:
            for part, pd in f['parts'].items():
                keys = [x for x, v in pd.get('values', {}).items() if not (isinstance(v, dict) and 'class' in v)]
                if keys and rng.random() < 0.8:
                    kx = rng.choice(keys)
                    pd['values'][kx] = S.same_type_value(rng, pd['values'][kx])
        elif r < 0.75:
            # change a value deeper in the tree: copy one used file and point this root's file to the copy
            for part, pd in f['parts'].items():
                us = [u for u in pd.get('uses', []) if u.get('file')]
                if us:
                    u = rng.choice(us)
                    uf = copy.deepcopy(spec['files'][u['file']])
                    for upd in uf['parts'].values():
                        keys = [x for x, v in upd.get('values', {}).items() if not (isinstance(v, dict) and 'class' in v)]
                        if keys:
                            kx = rng.choice(keys)
                            upd['values'][kx] = S.same_type_value(rng, upd['values'][kx])
                    un = u['file'].rsplit('.', 1)[0] + f'_m{i}.' + u['file'].rsplit('.', 1)[1]
                    spec['files'][un] = uf
                    for u2 in pd['uses']:
                        if u2.get('file') == u['file']:
                            u2['file'] = un
        new_name = fname.rsplit('.', 1)[0].rsplit('_mc', 1)[0] + f'_mc{i}.' + fname.rsplit('.', 1)[1]
        spec['files'][new_name] = f
        root['file'] = new_name
        if same_stem is not None:
            inst_, k_, v_ = same_stem
            val = v_
            for _ in range(i + 1):
                val = S.same_type_value(rng, val)
            ns_ = '::'.join(inst_['ns'])
            spec['context_files'][f'ctxs/exp_{i}/override.json'] = {'for_namespaces': {ns_: {k_: val}}} if ns_ else {k_: val}
            root['context'] = [{'kind': 'file', 'file': 'ctxs/base.json'}, {'kind': 'file', 'file': f'ctxs/exp_{i}/override.json'}]
            root['context_single'] = False
        elif rng.random() < 0.3:
            S.add_context(rng, spec, root, S.DEFAULT_FEAT)
        if rng.random() < 0.15 and spec.get('free_ns_words') and not root.get('namespace'):
            root['namespace'] = rng.choice(spec['free_ns_words'])
        roots.append(root)
    return roots


def config_name(root):
    base = root['file'].split('/')[-1].rsplit('.', 1)[0]
    return f'{base}#{root["part"]}' if root.get('part') else base


def run_multi_case(rng, res: CaseResult):
    pm = True
    parts_family = rng.random() < 0.2
    if parts_family:
        # members = the parts of ONE multi-config file (same task classes, other values), in parameter mode or with results addressed by config name
        spec, part_roots = S.parts_spec(rng)
        base = part_roots[0]
        pm = rng.random() < 0.5
        res.count('parts_of_one_file_multichains')
        if not pm:
            res.count('name_mode_multichains')
    elif rng.random() < 0.3:
        spec, troots = S.twin_spec(rng)
        base = {'file': 'cfg/top.yaml'}
    else:
        spec = S.gen_spec(rng)
        base = S.gen_root(rng, spec)
        base.pop('context', None)
    if spec['files'][base['file']].get('multi') and not base.get('part'):
        base['part'] = next(p for p, d in spec['files'][base['file']]['parts'].items() if d.get('main_part'))
    k = rng.randint(2, 5)
    if parts_family:
        roots, k = part_roots, len(part_roots)
    else:
        roots = multi_roots(rng, spec, base, k)
    refs = [Ref(spec, r, parameter_mode=pm) for r in roots]
    if any(r.error is not None or not r.tasks for r in refs):
        res.count('generator_rejects')
        return
    names = [config_name(r) for r in roots]
    if len(set(names)) != len(names):
        res.count('generator_rejects')
        return
    # steps
    steps = [{'op': 'build_multi', 'chain': 'mc', 'roots': roots, 'parameter_mode': pm}]
    common = set(refs[0].tasks)
    for r in refs[1:]:
        common &= set(r.tasks)
    for _ in range(rng.randint(4, 14)):
        mi = rng.randrange(k)
        r = rng.random()
        if r < 0.7 or not common:
            steps.append({'op': 'value', 'chain': 'mc', 'member': names[mi], 'task': rng.choice(list(refs[mi].tasks)), 'mi': mi})
        else:
            targets = rng.sample(sorted(common), min(len(common), rng.choice([1, 1, 2])))
            st = {'op': 'force', 'chain': 'mc', 'tasks': targets}
            # tasks named by their short form (group levels left out) where that identifies one task in every member
            shorts = []
            for n_ in targets:
                bare = n_.split('::')[-1].split(':')[-1]
                if '::' not in n_ and ':' in n_ and all(sum(1 for m_ in r_.tasks if m_.split('::')[-1].split(':')[-1] == bare) == 1 for r_ in refs):
                    shorts.append(bare)
                else:
                    shorts = None
                    break
            if shorts and rng.random() < 0.6:
                st['model_tasks'] = targets
                st['tasks'] = shorts
                res.count('multi_force_by_short_name')
            if rng.random() < 0.3:
                st['delete_data'] = True
            if rng.random() < 0.5:
                st['container'] = rng.choice(['tuple', 'set', 'generator', 'map', 'dict'])
            elif len(st['tasks']) == 1 and len(steps) % 2 == 0:
                # one task given as a bare name, not in a list (chosen without drawing from the generator: earlier seeds keep their cases)
                st['scalar'] = True
                res.count('multi_force_by_bare_string')
            steps.append(st)
            for j in range(k):
                steps.append({'op': 'snapshot', 'chain': 'mc', 'member': names[j], 'light': True, 'mi': j})
    # a further chain built later on the MultiChain's task registry (Chain(cfg, shared_tasks=...)), after values were computed
    extra_ri = None
    if rng.random() < 0.5 and pm:
        extra_ri = rng.randrange(k)
        pos = rng.randint(2, len(steps))
        more = [{'op': 'build', 'chain': 'extra', 'root': roots[extra_ri], 'shared_from': 'mc'}]
        for _ in range(rng.randint(1, 4)):
            if rng.random() < 0.6:
                more.append({'op': 'value', 'chain': 'extra', 'task': rng.choice(list(refs[extra_ri].tasks)), 'mi': 'extra'})
            else:
                mi2 = rng.randrange(k)
                more.append({'op': 'value', 'chain': 'mc', 'member': names[mi2], 'task': rng.choice(list(refs[mi2].tasks)), 'mi': mi2})
        steps = steps[:pos] + more + steps[pos:]
    # closures asked of every member BY TASK OBJECT (tasks shared between members carry the full name of the member that created them)
    for j in range(k):
        steps.append({'op': 'inspect', 'chain': 'mc', 'member': names[j], 'what': 'deps', 'mi': j})
    witness = {'spec': spec, 'roots': roots, 'steps': [{kk: v for kk, v in s.items() if kk not in ('roots', 'root')} for s in steps]}
    with Lab(spec) as lab:
        r = lab.run(steps)
        prob = session_problem(r)
        if prob:
            res.inconclusive.append(prob)
            return
        obs = r['steps']
    res.count('multichains')
    b = obs[0]
    if not b['ok']:
        res.violate(f'MultiChain over valid configs {names} failed to build: {b.get("exc")}: {b.get("msg")}', witness=witness, facts={'tag': 'multi_build'})
        return
    members = b['members']
    if set(members) != set(names):
        res.violate(f'MultiChain members {sorted(members)} differ from the configs given {sorted(names)}', witness=witness, facts={'tag': 'members'})
        return
    # (a) every member equals the standalone reference
    occurrences = Counter((t['slug'], t['key']) for r_ in refs for t in r_.tasks.values())
    for i, nm in enumerate(names):
        disc = compare_build(refs[i], {'ok': True, 'snapshot': members[nm]}, pm)
        # identical computations of several members are one shared object: values excluded from persistence may be any member's
        disc = [d for d in disc if not (d['tag'] == 'params' and d['facts'].get('unpersisted') and occurrences[tuple(d['facts']['slugkey'])] > 1)]
        res.count('members_compared')
        for d in disc:
            res.violate(f'member chain `{nm}`: {d["what"]}', witness=witness, facts={'tag': 'member_' + d['tag']})
        if disc:
            return
    # (b) identity iff same computation
    entries = []
    for i, nm in enumerate(names):
        for tn, t in refs[i].tasks.items():
            # (with results addressed by config name, every config's tasks are computations of their own)
            entries.append((i, tn, t['slug'], t['descriptor'] if pm else f'config {nm}', members[nm]['tasks'][tn]['id'], t['key']))
    by_desc = {}
    for e in entries:
        by_desc.setdefault((e[2], e[3]), []).append(e)
    shared_any = False
    for (slug, desc), es in by_desc.items():
        ids = {e[4] for e in es}
        if len({e[0] for e in es}) > 1:
            res.count('identity_pairs_same', len(es) - 1)
            shared_any = True
        if len(ids) > 1:
            res.violate(f'tasks that are the same computation are different objects in the MultiChain: {[(names[e[0]], e[1]) for e in es]}',
                        witness=witness, facts={'tag': 'not_shared'})
            return
    by_id = {}
    for e in entries:
        by_id.setdefault(e[4], set()).add((e[2], e[3]))
    for oid, ds in by_id.items():
        if len(ds) > 1:
            bad = [(names[e[0]], e[1]) for e in entries if e[4] == oid]
            res.violate(f'tasks that differ in a parameter or an upstream computation are one shared object: {bad}', witness=witness, facts={'tag': 'wrongly_shared'})
            return
    res.count('identity_pairs_different', sum(1 for a in by_desc for b_ in by_desc if a[0] == b_[0] and a != b_) // 2)
    # (c)/(d): model with objects shared by identity across members
    model = Model(refs)
    pool = {}
    chains = {}
    for i, nm in enumerate(names):
        objs = {}
        for tn, d in members[nm]['tasks'].items():
            o = pool.get(d['id'])
            if o is None:
                o = pool[d['id']] = Obj(d['id'], i)
                o.ref_name = tn
            if i == o.ri:
                o.names.append(tn)
            objs[tn] = o
        chains[i] = {'ri': i, 'objs': objs}
    model.ri_chain = chains
    computed_by = {}
    for st, o in zip(steps[1:], obs[1:]):
        here = f'step {o["step"]} {st["op"]} {st.get("member", "")} {st.get("task") or st.get("tasks") or ""}'
        runs = [x for x in o['runs'] if x['phase'] == 'start']
        if st['op'] == 'build':
            if not o['ok']:
                res.violate(f'{here}: a chain built later on the MultiChain\'s task registry failed: {o.get("exc")}: {o.get("msg")}', witness=witness, facts={'tag': 'extra_build'})
                return
            res.count('chains_on_shared_registry')
            objs = {}
            for tn, d in o['snapshot']['tasks'].items():
                ob_ = pool.get(d['id'])
                if ob_ is None:
                    ob_ = pool[d['id']] = Obj(d['id'], extra_ri)
                    ob_.ref_name = tn
                    ob_.names.append(tn)
                objs[tn] = ob_
            chains['extra'] = {'ri': extra_ri, 'objs': objs}
            if [x for x in runs]:
                res.violate(f'{here}: building a chain on the shared registry executed runs {[x["task"] for x in runs]}', witness=witness, facts={'tag': 'runs_on_build'})
                return
            continue
        if st['op'] == 'value':
            mi = st['mi']
            ch = chains[mi]
            ob = ch['objs'][st['task']]
            # read targets are names of the member that owns the object (same computation -> same structure)
            owner = chains[ob.ri]
            exp_runs = []
            was_mem = ob.in_memory
            model.request(owner, ob, exp_runs)
            if model.tainted:
                return
            if not o['ok']:
                res.violate(f'{here}: value request failed: {o.get("exc")}: {o.get("msg")}', witness=witness, facts={'tag': 'value_error'})
                return
            res.count('values_observed')
            ri_ = ch['ri']
            exp_digest = refs[ri_].tasks[st['task']]['vdigest']
            if o['vdigest'] != exp_digest:
                res.violate(f'{here}: member chain returned a value that is not the result of this task under its own configuration '
                            f'(digest {o["vdigest"]}, reference {exp_digest})', witness=witness, facts={'tag': 'value'})
                return
            got = sorted((x['slug'], x['key']) for x in runs)
            exp = sorted((next(t['slug'] for r_ in refs for nn, t in r_.tasks.items() if nn == n and t['key'] == kk), kk) for (n, kk, _) in exp_runs)
            if got != exp:
                res.violate(f'{here}: executed runs {got}, expected {exp} (in memory before: {was_mem})', witness=witness, facts={'tag': 'runs'})
                return
            if was_mem:
                key = (refs[ob.ri].tasks[ob.ref_name]['slug'], refs[ob.ri].tasks[ob.ref_name]['key'])
                if computed_by.get(key) not in (None, mi):
                    res.count('served_from_memory_across_members')
                rp = refs[ri_].tasks[st['task']]['rel_path']
                reads = [p for ev, p in o['fs'] if ev == 'open_r' and rp and (p == rp or p.startswith(rp + '/'))]
                if reads and refs[ri_].tasks[st['task']]['spec']['data_kind'] not in ('lazy', 'dir', 'continues', 'empty_dir'):
                    res.violate(f'{here}: the value was already in memory through another request but the store was read again: {reads[:3]}',
                                witness=witness, facts={'tag': 'reread'})
                    return
            else:
                computed_by[(refs[ob.ri].tasks[ob.ref_name]['slug'], refs[ob.ri].tasks[ob.ref_name]['key'])] = mi
        elif st['op'] == 'force':
            res.count('multi_force_steps')
            if not o['ok']:
                res.violate(f'{here}: MultiChain.force raised {o.get("exc")}: {o.get("msg")}', witness=witness, facts={'tag': 'force_failed'})
                return
            for i in range(k):
                objs = model.closure(chains[i], st.get('model_tasks', st['tasks']))
                model.force(chains[i], objs, bool(st.get('delete_data')))
        elif st['op'] == 'inspect':
            mi = st['mi']
            res.count('member_closures_checked')
            if not o['ok']:
                res.violate(f'{here}: required_tasks / dependent_tasks of member `{names[mi]}` raised {o.get("exc")}: {o.get("msg")}', witness=witness, facts={'tag': 'member_closures'})
                return
            # (observed names are full names of the objects; identity classes of the member's own snapshot decide)
            for d in compare_closures(refs[mi], {'snapshot': members[names[mi]]}, o):
                res.violate(f'member chain `{names[mi]}`: {d["what"]}', witness=witness, facts={'tag': 'member_closures'})
                return
        elif st['op'] == 'snapshot':
            if not o['ok']:
                continue
            mi = st['mi']
            for tn, d in o['snapshot']['tasks'].items():
                ob = chains[mi]['objs'][tn]
                exp_has = model.persisting(ob) and model.loc(ob) in model.store
                if d.get('has_data') != exp_has:
                    res.violate(f'{here}: has_data of {tn} in member `{names[mi]}` is {d.get("has_data")}, the history (incl. MultiChain.force delete_data) implies {exp_has}',
                                witness=witness, facts={'tag': 'has_data'})
                    return
                if d['forced'] != ob.forced:
                    res.violate(f'{here}: after MultiChain.force is_forced of {tn} in member `{names[mi]}` is {d["forced"]}, the closure of the named tasks says {ob.forced}',
                                witness=witness, facts={'tag': 'forced_flag'})
                    return
    if shared_any and len(by_desc) > len({e[2] for e in entries}):
        res.nt(jhash([spec['files'], roots, witness['steps']]))
    if res.sample is None:
        res.sample = {'roots': roots[:3], 'steps': witness['steps'][:10]}


def run_objects_case(rng, res: CaseResult):
    """MultiChain over Config OBJECTS sharing one upstream Config object, members differing by context / own values"""
    from ..lab.harness import Lab
    k = rng.randint(2, 4)
    members = []
    # every member overrides the SAME keys through its context: the upstream Config object is reused (and updated in place) by all members, so a
    # member without an override would legitimately keep the previous member's value (in-place reuse of a caller-owned object, outside the statement)
    keys = rng.sample(['x', 'y', 'w'], rng.randint(1, 3))
    for i in range(k):
        m = {'ctx': {kk: rng.choice([1, 2, 3, 'a', 'b']) for kk in keys}}
        if rng.random() < 0.4:
            m['z'] = rng.choice([7, 8])
        members.append(m)
    plan = {'x0': rng.choice([0, 10]), 'mid_separate': rng.random() < 0.5, 'members': members}
    spec = {'pkg': 'labo_x', 'modules': [], 'files': {}, 'context_files': {}}
    with Lab(spec) as lab:
        r = lab.run([{'op': 'multi_objects', 'chain': 'mo', 'plan': plan}])
    if session_problem(r):
        res.inconclusive.append(session_problem(r))
        return
    o = r['steps'][0]
    witness = {'plan': plan}
    res.count('object_config_multichains')
    if not o['ok']:
        res.violate(f'MultiChain over Config objects {plan} failed: {o.get("exc")}: {o.get("msg")}', witness=witness, facts={'tag': 'objects_build'})
        return
    by_key = {}
    for mname, tasks in o['members'].items():
        alone = o['standalone'][mname]
        if set(tasks) != set(alone):
            res.violate(f'member {mname}: task names {sorted(tasks)} differ from the standalone chain {sorted(alone)}', witness=witness, facts={'tag': 'objects_names'})
            return
        for tn, d in tasks.items():
            a = alone[tn]
            for field in ('params', 'key', 'value'):
                if d[field] != a[field]:
                    res.violate(f'member {mname} of a MultiChain over Config objects: {field} of {tn} is {str(d[field])[:150]}, the standalone chain of the same config '
                                f'gives {str(a[field])[:150]} (plan {plan})', witness=witness, facts={'tag': 'objects_' + field})
                    return
            by_key.setdefault((tn.split('::')[-1], d['key']), set()).add(d['id'])
    for (slug, key), ids in by_key.items():
        if len(ids) > 1:
            res.violate(f'identical computations of {slug} are different objects across members (plan {plan})', witness=witness, facts={'tag': 'objects_not_shared'})
            return
    res.nt(jhash(plan))


def run_case(case) -> CaseResult:
    res = CaseResult()
    rng = random.Random(case['seed'])
    if case.get('objects'):
        for i in range(case['n']):
            run_objects_case(rng, res)
            if res.violations:
                break
        res.sample = {'kind': 'config objects', 'n': case['n']}
        return res
    for i in range(case['n']):
        run_multi_case(rng, res)
        if len(res.violations) > 3:
            break
    return res


def cases(tier, seed):
    rng = random.Random(f'c13-{seed}')
    n = 150 if tier == 'quick' else 5000
    for i in range(n):
        yield {'n': 3, 'seed': rng.randrange(1 << 30)}
        if i % 5 == 0:
            yield {'n': 6, 'seed': rng.randrange(1 << 30), 'objects': True}
