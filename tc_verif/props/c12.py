"""C12 — the storage scheme is stable, so earlier results stay addressable."""
from __future__ import annotations

import json
import random
from pathlib import Path

from .. import refscheme
from ..core import CaseResult, VERIF_DIR, jhash
from ..lab.build_cases import run_build_case
from ..lab.harness import session_problem

LEVEL = 'exploration'
RULE = ('case = generated pipeline over every group form (none, single, multi-level, ModuleTask, DoubleModuleTask), namespaces, all data '
        'classes, JSON-like / parameter-object / Path parameter values, built in a real process (5 of 6 in parameter mode, 1 of 6 in name mode); '
        'oracle = frozen independent implementation of the documented layout and of the 1.4.0 key derivation (refscheme.py) for every task\'s '
        'name_for_persistence and data_path; then every task is computed and the files on disk must be exactly at the frozen locations '
        '(result, <key>.run_info.yaml, <key>.log, declared work areas); committed golden vectors re-checked on every run. non-trivial = '
        '>=3 tasks and >=1 edge; distinct = hash(modules, files, root)')
REQUIRED = ['builds', 'tasks_built', 'golden_vectors_checked', 'files_on_disk_checked', 'results_at_frozen_location', 'name_mode_builds',
            'module_group_tasks', 'multi_level_group_tasks', 'value_level_keys_checked', 'values_with_non_string_mapping_keys']
ASSUMPTIONS = ['the pinned tree equals release 1.4.0 in layout and key derivation (README lists only the `~~` input form as unpublished); no 1.4.0 '
               'artefact is available offline, the scheme is frozen in /verif/tc_verif/refscheme.py and pinned by /verif/golden/keys.jsonl',
               'name mode is exercised without contexts and with file-based config names']
BUDGET = {'quick': 60, 'thorough': 1200}
PROPS = {'C12'}
GOLDEN = VERIF_DIR / 'golden' / 'keys.jsonl'


def check_golden(res: CaseResult):
    if not GOLDEN.exists():
        res.inconclusive.append('golden vector file missing')
        return
    for line in GOLDEN.read_text().splitlines():
        g = json.loads(line)
        persisted = {k: (tuple(v) if isinstance(v, list) and v and v[0] == 'path' and g.get('path_params') and k in g['path_params'] else v)
                     for k, v in g['persisted'].items()}
        k = refscheme.key(persisted, g['inputs'], g['ns'], gv_active=g.get('gv_active', False))
        rp = refscheme.rel_path(g['slug'], k, g['kind'])
        res.count('golden_vectors_checked')
        if k != g['key'] or rp != g['rel_path']:
            res.violate(f'frozen scheme drifted: golden vector {g["slug"]} gives {k} / {rp}, recorded {g["key"]} / {g["rel_path"]}',
                        facts={'tag': 'golden'})


def after_run(lab, ref, spec, root, st, res, witness):
    """compute everything, then compare the files on disk with the frozen locations"""
    if root.get('_name_mode'):
        return
    steps = [{'op': 'build', 'chain': 'c', 'root': root}] + [{'op': 'value', 'chain': 'c', 'task': n} for n in ref.tasks]
    r = lab.run(steps)
    if session_problem(r):
        res.inconclusive.append(session_problem(r))
        return
    failed = [o for o in r['steps'][1:] if not o['ok']]
    if failed:
        res.count('runs_failed_not_judged_here')
        return
    listing = lab.files()
    allowed_files, allowed_prefixes, must_exist = set(), [], []
    for n, t in ref.tasks.items():
        d = refscheme.rel_dir(t['slug'])
        ri, lg = refscheme.side_files(t['slug'], t['key'])
        allowed_files.update([ri, lg])
        must_exist.append((n, ri))
        kind = t['spec']['data_kind']
        if kind == 'memory':
            continue
        rp = t['rel_path']
        must_exist.append((n, rp))
        if refscheme.EXT[kind]:
            allowed_files.add(rp)
        else:
            allowed_prefixes.append(rp + '/')
        allowed_prefixes += [f'{d}/{t["key"]}_tmp/', f'{d}/{t["key"]}_error/']
    res.count('files_on_disk_checked', len(listing['files']))
    stray = [f for f in listing['files'] if f not in allowed_files and not any(f.startswith(p) for p in allowed_prefixes)]
    if stray:
        res.violate(f'files written outside the frozen locations: {stray[:6]}', witness=witness, facts={'tag': 'stray_files'})
    present = set(listing['files']) | set(listing['dirs'])
    for n, p in must_exist:
        if p not in present:
            res.violate(f'{n}: after computing, nothing exists at the frozen location {p}', witness=witness, facts={'tag': 'missing_at_location'})
        else:
            res.count('results_at_frozen_location')
    for n, t in ref.tasks.items():
        if t['spec'].get('base') in ('ModuleTask', 'DoubleModuleTask'):
            res.count('module_group_tasks')
        if ':' in (t['slug'].rsplit(':', 1)[0] if ':' in t['slug'] else ''):
            res.count('multi_level_group_tasks')


def _gen_object_value(rng):
    """parameter objects of the lab whose text is frozen in refscheme (incl. a class that names its own ignorable arguments); top level only"""
    return rng.choice([
        {'class': 'tc_verif.lab.runtime.LabOpTuned', 'kwargs': {'amount': rng.choice([3, 'x']), 'debug': rng.choice([True, False]), 'verbose': rng.choice([True, False]),
                                                                'cache_dir': rng.choice(['/tmp/c', None])}},
        {'class': 'tc_verif.lab.runtime.LabOpAdd', 'kwargs': {'amount': rng.choice([3, [1, 2]])}},
        {'class': 'tc_verif.lab.runtime.LabOpMul', 'kwargs': {'amount': 3, 'unit': 'm'}},
        {'class': 'tc_verif.lab.runtime.LabObj', 'kwargs': {'a': rng.choice([1, 'z']), 'b': rng.choice([3, 4]), 'verbose': rng.choice([True, False])}}])


def gen_keyed_value(rng, depth=0):
    """parameter values as python / YAML configs can hold them: mappings keyed by ints or floats (numeric order differs from textual order), nested"""
    if depth == 0 and rng.random() < 0.12:
        return _gen_object_value(rng)
    r = rng.random()
    if depth < 3 and r < 0.35:
        kind = rng.choice(['int', 'int', 'float', 'str', 'neg'])
        pool = {'int': [1, 2, 3, 10, 12, 100, 20], 'float': [0.5, 1e-3, 2.0, 10.5, 1e16, 3.25], 'str': ['b', 'a', 'B', '10', '2', 'é'],
                'neg': [-1, -10, -2, 0, 5]}[kind]
        keys = rng.sample(pool, rng.randint(1, min(5, len(pool))))
        return {k: gen_keyed_value(rng, depth + 1) for k in keys}
    if depth < 3 and r < 0.5:
        return [gen_keyed_value(rng, depth + 1) for _ in range(rng.randint(0, 3))]
    return rng.choice([0, 1, -3, 2.5, 1e-05, True, None, 'x', 'é y', '', 10 ** 12])


def check_values(rng, n, res: CaseResult):
    """value level: key of a real one-task chain for parameter value v == key of the frozen scheme for v"""
    import shutil
    import tempfile
    from pathlib import Path
    from .c03 import key_of
    tmp = Path(tempfile.mkdtemp(prefix='c12-'))
    try:
        for _ in range(n):
            v = gen_keyed_value(rng)
            try:
                want = refscheme.key({'p': v}, {}, None)
            except TypeError:
                continue
            given = v
            if rng.random() < 0.3 and not refscheme.is_objdef(v):       # (object definitions are recognised as plain dicts only)
                # the same mapping handed over as a dict SUBCLASS with another insertion order (OrderedDict, defaultdict, attribute-access dicts of code-built configs)
                import collections

                class AttrDict(dict):
                    __getattr__ = dict.get

                def resub(x):
                    if isinstance(x, dict):
                        items = [(k_, resub(y_)) for k_, y_ in reversed(list(x.items()))]
                        kind_ = rng.choice(['od', 'dd', 'attr'])
                        return collections.OrderedDict(items) if kind_ == 'od' else (collections.defaultdict(list, items) if kind_ == 'dd' else AttrDict(items))
                    if isinstance(x, list):
                        return [resub(y_) for y_ in x]
                    return x
                given = resub(v)
                res.count('values_given_as_dict_subclasses')
            try:
                got = key_of(given, tmp)
            except Exception as e:
                res.violate(f'parameter value {v!r}: the chain could not derive a key: {type(e).__name__}: {e}', witness={'value': repr(v)}, facts={'tag': 'value_key'})
                continue
            res.count('value_level_keys_checked')
            if isinstance(v, dict) and any(not isinstance(k, str) for k in v):
                res.count('values_with_non_string_mapping_keys')
                res.nt(jhash(['v', repr(v)]))
            if got != want:
                res.violate(f'parameter value {v!r}: key {got} differs from the frozen 1.4.0 scheme {want} (text {refscheme.params_repr({"p": v}, False)!r})',
                            witness={'value': repr(v)}, facts={'tag': 'value_key'})
    finally:
        shutil.rmtree(tmp, ignore_errors=True)


def check_factory_classes(rng, res: CaseResult):
    """task classes made by one factory function (same module, same qualified name, other Meta): each is stored under ITS group / name / key"""
    import shutil
    import tempfile
    from pathlib import Path
    from taskchain import Config, Task
    from taskchain.parameter import Parameter

    def make(name, group, pname):
        class Export(Task):
            class Meta:
                parameters = [Parameter(pname)]

            def run(self) -> dict:
                return {'made_for': name}
        Export.Meta.name = name
        if group:
            Export.Meta.task_group = group
        return Export
    tmp = Path(tempfile.mkdtemp(prefix='c12f-'))
    try:
        decls = [(rng.choice(['export_csv', 'export_tsv', 'dump', 'x']) + str(i), rng.choice([None, 'exports', 'io:out']), rng.choice(['sep', 'fmt'])) for i in range(rng.randint(2, 4))]
        for name, group, pname in decls:
            cls = make(name, group, pname)
            val = rng.choice([1, 'a', [1, 2]])
            slug = (group + ':' if group else '') + name
            res.count('factory_made_classes_checked')
            try:
                chain = Config(tmp, name='cfg', data={'tasks': [cls], pname: val}).chain()
            except Exception as e:
                res.violate(f'task class made by a factory (Meta name={name!r}, group={group!r}, parameter {pname}={val!r}): the chain cannot be built: {type(e).__name__}: {e}',
                            witness={'decls': decls}, facts={'tag': 'factory_class'})
                continue
            if slug not in chain.tasks:
                res.violate(f'task class made by a factory with Meta name={name!r} group={group!r}: the chain knows it as {list(chain.tasks)}', witness={'decls': decls},
                            facts={'tag': 'factory_class'})
                continue
            t = chain.tasks[slug]
            want = refscheme.rel_path(slug, refscheme.key({pname: val}, {}, None), 'json_dict')
            got = str(Path(t.data_path).relative_to(tmp))
            if got != want:
                res.violate(f'task class made by a factory (Meta name={name!r}, group={group!r}, parameter {pname}={val!r}): stored at {got}, the frozen layout says {want}',
                            witness={'decls': decls}, facts={'tag': 'factory_class'})
    finally:
        shutil.rmtree(tmp, ignore_errors=True)


def run_case(case) -> CaseResult:
    res = CaseResult()
    rng = random.Random(case['seed'])
    if case.get('values'):
        check_values(rng, case['n'], res)
        for _ in range(5):
            check_factory_classes(rng, res)
        res.sample = {'kind': 'values', 'n': case['n']}
        return res
    if case.get('golden'):
        check_golden(res)
        res.sample = {'golden_file': str(GOLDEN)}
        return res
    for i in range(case['n']):
        name_mode = case.get('name_mode', False)
        feat = {'contexts': not name_mode, 'optional_inputs': True, 'same_file_twice': not name_mode, 'adversarial_strings': True}
        if name_mode:
            res.count('name_mode_builds')
        run_build_case(rng, res, PROPS, feat=feat, after=None if name_mode else after_run, parameter_mode=not name_mode)
        if len(res.violations) > 3:
            break
    return res


def cases(tier, seed):
    rng = random.Random(f'c12-{seed}')
    yield {'golden': True, 'seed': 0}
    n = 150 if tier == 'quick' else 5000
    for i in range(n):
        yield {'n': 5, 'seed': rng.randrange(1 << 30), 'name_mode': i % 6 == 5}
        if i % 10 == 0:
            yield {'values': True, 'n': 150, 'seed': rng.randrange(1 << 30)}
