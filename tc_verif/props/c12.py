"""C12 — the storage scheme is stable, so earlier results stay addressable."""
from __future__ import annotations

import json
import random
from pathlib import Path

from .. import refscheme
from ..core import CaseResult, VERIF_DIR, jhash
from ..lab.build_cases import run_build_case
from ..lab.harness import session_problem

LEVEL = 'exploration'
RULE = ('case = generated pipeline over every group form (none, single, multi-level, ModuleTask, DoubleModuleTask), namespaces, all data '
        'classes, JSON-like / parameter-object / Path parameter values, built in a real process (5 of 6 in parameter mode, 1 of 6 in name mode); '
        'oracle = frozen independent implementation of the documented layout and of the 1.4.0 key derivation (refscheme.py) for every task\'s '
        'name_for_persistence and data_path; then every task is computed and the files on disk must be exactly at the frozen locations '
        '(result, <key>.run_info.yaml, <key>.log, declared work areas); committed golden vectors re-checked on every run. non-trivial = '
        '>=3 tasks and >=1 edge; distinct = hash(modules, files, root)')
REQUIRED = ['builds', 'tasks_built', 'golden_vectors_checked', 'files_on_disk_checked', 'results_at_frozen_location', 'name_mode_builds',
            'module_group_tasks', 'multi_level_group_tasks']
ASSUMPTIONS = ['the pinned tree equals release 1.4.0 in layout and key derivation (README lists only the `~~` input form as unpublished); no 1.4.0 '
               'artefact is available offline, the scheme is frozen in /verif/tc_verif/refscheme.py and pinned by /verif/golden/keys.jsonl',
               'name mode is exercised without contexts and with file-based config names']
BUDGET = {'quick': 60, 'thorough': 1200}
PROPS = {'C12'}
GOLDEN = VERIF_DIR / 'golden' / 'keys.jsonl'


def check_golden(res: CaseResult):
    if not GOLDEN.exists():
        res.inconclusive.append('golden vector file missing')
        return
    for line in GOLDEN.read_text().splitlines():
        g = json.loads(line)
        persisted = {k: (tuple(v) if isinstance(v, list) and v and v[0] == 'path' and g.get('path_params') and k in g['path_params'] else v)
                     for k, v in g['persisted'].items()}
        k = refscheme.key(persisted, g['inputs'], g['ns'], gv_active=g.get('gv_active', False))
        rp = refscheme.rel_path(g['slug'], k, g['kind'])
        res.count('golden_vectors_checked')
        if k != g['key'] or rp != g['rel_path']:
            res.violate(f'frozen scheme drifted: golden vector {g["slug"]} gives {k} / {rp}, recorded {g["key"]} / {g["rel_path"]}',
                        facts={'tag': 'golden'})


def after_run(lab, ref, spec, root, st, res, witness):
    """compute everything, then compare the files on disk with the frozen locations"""
    if root.get('_name_mode'):
        return
    steps = [{'op': 'build', 'chain': 'c', 'root': root}] + [{'op': 'value', 'chain': 'c', 'task': n} for n in ref.tasks]
    r = lab.run(steps)
    if session_problem(r):
        res.inconclusive.append(session_problem(r))
        return
    failed = [o for o in r['steps'][1:] if not o['ok']]
    if failed:
        res.count('runs_failed_not_judged_here')
        return
    listing = lab.files()
    allowed_files, allowed_prefixes, must_exist = set(), [], []
    for n, t in ref.tasks.items():
        d = refscheme.rel_dir(t['slug'])
        ri, lg = refscheme.side_files(t['slug'], t['key'])
        allowed_files.update([ri, lg])
        must_exist.append((n, ri))
        kind = t['spec']['data_kind']
        if kind == 'memory':
            continue
        rp = t['rel_path']
        must_exist.append((n, rp))
        if refscheme.EXT[kind]:
            allowed_files.add(rp)
        else:
            allowed_prefixes.append(rp + '/')
        allowed_prefixes += [f'{d}/{t["key"]}_tmp/', f'{d}/{t["key"]}_error/']
    res.count('files_on_disk_checked', len(listing['files']))
    stray = [f for f in listing['files'] if f not in allowed_files and not any(f.startswith(p) for p in allowed_prefixes)]
    if stray:
        res.violate(f'files written outside the frozen locations: {stray[:6]}', witness=witness, facts={'tag': 'stray_files'})
    present = set(listing['files']) | set(listing['dirs'])
    for n, p in must_exist:
        if p not in present:
            res.violate(f'{n}: after computing, nothing exists at the frozen location {p}', witness=witness, facts={'tag': 'missing_at_location'})
        else:
            res.count('results_at_frozen_location')
    for n, t in ref.tasks.items():
        if t['spec'].get('base') in ('ModuleTask', 'DoubleModuleTask'):
            res.count('module_group_tasks')
        if ':' in (t['slug'].rsplit(':', 1)[0] if ':' in t['slug'] else ''):
            res.count('multi_level_group_tasks')


def run_case(case) -> CaseResult:
    res = CaseResult()
    rng = random.Random(case['seed'])
    if case.get('golden'):
        check_golden(res)
        res.sample = {'golden_file': str(GOLDEN)}
        return res
    for i in range(case['n']):
        name_mode = case.get('name_mode', False)
        feat = {'contexts': not name_mode, 'optional_inputs': True, 'same_file_twice': not name_mode, 'adversarial_strings': True}
        if name_mode:
            res.count('name_mode_builds')
        run_build_case(rng, res, PROPS, feat=feat, after=None if name_mode else after_run, parameter_mode=not name_mode)
        if len(res.violations) > 3:
            break
    return res


def cases(tier, seed):
    rng = random.Random(f'c12-{seed}')
    yield {'golden': True, 'seed': 0}
    n = 150 if tier == 'quick' else 5000
    for i in range(n):
        yield {'n': 5, 'seed': rng.randrange(1 << 30), 'name_mode': i % 6 == 5}
