"""C09 — configs compose by declared precedence, without leaking or silent override."""
from __future__ import annotations

import json
import random

from ..core import CaseResult, jhash
from ..lab.build_cases import run_build_case
from ..lab.harness import session_problem

LEVEL = 'exploration'
RULE = ('case = generated config tree (JSON/YAML, uses with/without namespaces to depth 3, one file mounted under several namespaces, '
        'multi-config files with #part references) x contexts (dict, file, Context object, lists, for_namespaces, nested context `uses ... as ns`) '
        'x parameter declarations (defaults, name_in_config, dtype, ignored) built in a real process; 30% get one injected error (missing '
        'required value, wrong dtype, same task declared by two configs in one namespace). oracle = reference precedence (declaring config '
        '-> context global entries -> entries of the exact namespace; later contexts win; default) on Task.params of every task; aliasing monitor: '
        'one caller-owned context handed to two Configs stays deep-equal and in-place mutation of every value reachable from the first '
        'config changes neither the context nor other configs. non-trivial = context present and >=1 namespace, or injected error; '
        'distinct = hash(files, root, injection)')
REQUIRED = ['builds', 'valid_specs', 'params_checked', 'expected_error_missing_param', 'expected_error_dtype', 'expected_error_conflict',
            'errors_reported', 'alias_checks', 'context_cases', 'namespace_context_cases', 'repeated_namespace_word_cases']
ASSUMPTIONS = ['precedence as in DESIGN.md Appendix A.2/A.3; contexts whose own entries overlap entries of a context they `use`, reserved keys inside '
               'contexts and name mode are outside the generator',
               'values of parameters excluded from persistence are not compared on tasks that are the same computation as another task of the '
               'chain (such tasks are one shared object by design)']
BUDGET = {'quick': 60, 'thorough': 1200}
PROPS = {'C09'}
FEAT = {'patterns': False}


def alias_after(lab, ref, spec, root, st, res, witness):
    if not root.get('context') and len(json.dumps(spec['files'])) % 5 >= 2:
        return      # (without a context: only the part about values shared between configs / tasks applies; checked on a share of the cases)
    r = lab.run([{'op': 'alias_check', 'chain': 'a', 'root': root}])
    if session_problem(r):
        res.inconclusive.append(session_problem(r))
        return
    o = r['steps'][0]
    if not o['ok']:
        res.violate(f'building two configs from one context object failed: {o.get("exc")}: {o.get("msg")}', witness=witness, facts={'tag': 'alias'})
        return
    res.count('alias_checks')
    if o['ctx_after_first'] != o['ctx_before'] or o['ctx_after_second'] != o['ctx_before']:
        res.violate('caller-owned context was modified by Config construction: before '
                    f'{json.dumps(o["ctx_before"])[:300]} after {json.dumps(o["ctx_after_second"])[:300]}',
                    witness=witness, facts={'tag': 'context_mutated'})

    def params(snap):
        return {n: d['params'] for n, d in snap['tasks'].items()}
    if params(o['snapshot']) != params(o['snapshot2']):
        diff = [n for n in o['snapshot']['tasks'] if o['snapshot']['tasks'][n]['params'] != o['snapshot2']['tasks'].get(n, {}).get('params')]
        res.violate(f'second Config built from the same context object sees other parameter values than the first (tasks {diff[:4]})',
                    witness=witness, facts={'tag': 'second_config_differs'})
    if o['ctx_after_poison'] != o['ctx_after_second']:
        res.violate('in-place mutation of values reachable from a config changed the caller-owned context (shared mutable values)',
                    witness=witness, facts={'tag': 'shared_mutable_ctx'})
    if params(o['snapshot3_after_poison']) != params(o['snapshot2']):
        res.violate('in-place mutation of values reachable from one config changed the values a later config gets from the same context',
                    witness=witness, facts={'tag': 'shared_mutable_cfg'})


def run_case(case) -> CaseResult:
    res = CaseResult()
    rng = random.Random(case['seed'])
    for i in range(case['n']):
        inject = None
        if rng.random() < 0.3:
            inject = rng.choice(['missing_param', 'dtype', 'conflict'])
        before = res.counters.get('valid_specs', 0)
        if rng.random() < 0.08:
            # a namespace word repeated along a mount path, contexts addressing it absolutely and from a mounted context
            from ..lab import spec as S_
            res.count('repeated_namespace_word_cases')
            run_build_case(rng, res, PROPS, spec_root=S_.repeated_ns_spec(rng))
            continue
        ref = run_build_case(rng, res, PROPS, feat=dict(FEAT, **case.get('feat', {})), inject=inject, after=alias_after)
        if len(res.violations) > 3:
            break
    fx = res.extra.get('features', {})
    res.counters['context_cases'] = fx.get('context', 0)
    res.counters['namespace_context_cases'] = fx.get('context_for_namespaces', 0)
    return res


def cases(tier, seed):
    rng = random.Random(f'c09-{seed}')
    n = 150 if tier == 'quick' else 5000
    for i in range(n):
        yield {'n': 8, 'seed': rng.randrange(1 << 30)}
