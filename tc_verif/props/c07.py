"""C07 — forcing recomputes exactly what was asked."""
from __future__ import annotations

import random

from ..core import CaseResult
from .c01 import run_history_case

LEVEL = 'exploration'
RULE = ('case = history with many force steps: chain.force(tasks given as names / objects / scalar, 1-3 tasks, all four recompute x delete_data '
        'combinations) and Task.force directly, on stores that are full / partial / empty, followed by value requests in random order, across chains '
        'and processes on one data directory. oracle = descendant closure of the reference graph (quotient by observed object identity) + the '
        'store/memory/forced model: after every force step is_forced of every task == flags before U closure; removed result files == exactly the '
        'forced tasks that had data (delete_data) else none; recompute executes every forced task exactly once (plus missing unforced inputs); a forced '
        'task runs exactly once on its next request and writes its stored result again (audit-hook write set); unforced stored tasks are loaded. '
        'non-trivial = history with >=1 force step on a chain with >=1 edge; distinct = hash(spec files, roots, sessions)')
REQUIRED = ['name_mode_histories', 'histories', 'force_steps', 'delete_checks', 'replacement_checks', 'runs_observed', 'values_observed', 'prov_loaded']
ASSUMPTIONS = ['how often a task shared between member chains of a MultiChain is recomputed is not part of this property',
               'sequential histories']
BUDGET = {'quick': 75, 'thorough': 1500}
WANT = {'C07', 'C08', 'C04'}   # in histories with forcing every run / has_data mismatch concerns this property (e.g. results of unforced tasks deleted)
OPTS = {'max_sessions': 2, 'max_chains': 3, 'max_requests': 7, 'p_inspect': 0.05, 'p_force': 0.35, 'p_reset': 0.15, 'p_fault': 0.07, 'p_fault_force': 0.8, 'p_spawn': 0.05, 'p_shared_registry': 0.2}


def run_case(case) -> CaseResult:
    res = CaseResult()
    rng = random.Random(case['seed'])
    for i in range(case['n']):
        run_history_case(rng, res, WANT, OPTS, name_mode=rng.random() < 0.3)
        if len(res.violations) > 3:
            break
    return res


def cases(tier, seed):
    rng = random.Random(f'c07-{seed}')
    n = 140 if tier == 'quick' else 5000
    for i in range(n):
        yield {'n': 2, 'seed': rng.randrange(1 << 30)}
