"""C16 — `cached` keys identify the call, not how it was written."""
from __future__ import annotations

import inspect
import json
import random
import shutil
import tempfile
from pathlib import Path

from ..core import CaseResult, jhash

LEVEL = 'exploration'
RULE = ('case = generated class with 1-3 cached methods (0-3 positional-or-keyword, 0-3 defaulted, 0-2 keyword-only parameters, '
        'ignored kwargs, versions, bare and called decorator form) + a sequence of calls, each a random spelling of a binding '
        '(positional prefix length, keyword order, defaults spelled or omitted) optionally with force_cache/only_cache/'
        'store_cache_value; oracle = dictionary model keyed by inspect.signature().bind()+apply_defaults() minus ignored names; '
        'every execution returns a unique value. non-trivial = sequence in which some binding was called with >=2 different spellings; '
        'distinct = hash(signatures, call sequence)')
REQUIRED = ['calls', 'respelled_hits', 'different_binding_misses', 'ignored_arg_hits', 'force_calls', 'only_cache_calls',
            'store_value_calls', 'kwonly_default_spellings', 'own_cache_entry_counts', 'json_cache_classes', 'version_isolation_checks',
            'falsy_store_values', 'respelled_hits_with_reordered_mappings', 'classes_with_one_decorator_object_for_several_methods', 'failing_forced_calls']
ASSUMPTIONS = ['positional-only parameters, *args/**kwargs, custom key functions and methods sharing one external cache object are out of scope',
               'argument values are drawn from a pool that is pairwise distinct as JSON text (it contains values that Python considers equal: 1 / 1.0 / True, 0 / 0.0 / False)']
BUDGET = {'quick': 40, 'thorough': 900}

POOL = [2, 3, -1, 'a', 'b', '', None, [2, 3], [3, 2], {'k': 2}, {'k': 3}, {'j': 2}, 'None', '2', 2.5, [], {}, 'é', [[2]], {'k': [2]},
        {'k': 2, 'j': 3}, {'k': 3, 'j': 2}, 1, 1.0, True, 0, 0.0, False, [1], [1.0], [True], [{'b': 1, 'a': [2]}, 2], {'x': {'q': 1, 'p': 2, 'r': None}, 'w': [3]}]


class MethodBoom(Exception):
    pass


def reorder(rng, v):
    """an equal value whose mappings (at any depth) were typed in another item order"""
    if isinstance(v, dict):
        items = [(k, reorder(rng, x)) for k, x in v.items()]
        rng.shuffle(items)
        return dict(items)
    if isinstance(v, list):
        return [reorder(rng, x) for x in v]
    return v


def has_multikey_dict(v):
    if isinstance(v, dict):
        return len(v) >= 2 or any(has_multikey_dict(x) for x in v.values())
    if isinstance(v, list):
        return any(has_multikey_dict(x) for x in v)
    return False


def gen_method(rng, idx):
    n_req = rng.randint(0, 3)
    n_def = rng.randint(0, 3)
    n_kw = rng.randint(0, 2)
    params = []
    for i in range(n_req):
        params.append({'name': f'r{i}', 'kind': 'pos', 'default': None, 'has_default': False})
    for i in range(n_def):
        params.append({'name': f'd{i}', 'kind': 'pos', 'default': rng.choice(POOL), 'has_default': True})
    for i in range(n_kw):
        hd = rng.random() < 0.6
        params.append({'name': f'k{i}', 'kind': 'kw', 'default': rng.choice(POOL) if hd else None, 'has_default': hd})
    names = [p['name'] for p in params]
    ignore = [n for n in names if rng.random() < 0.2] if names else []
    if ignore and rng.random() < 0.4:
        # a parameter whose name merely BEGINS with an ignored name (verbose / verbose_limit) is not ignored
        params.append({'name': ignore[0] + '_limit', 'kind': 'kw', 'default': rng.choice(POOL), 'has_default': True})
    # ignored parameters need defaults to allow "omitted" spellings? not required; keep as is
    bare = (not ignore) and rng.random() < 0.25
    return {'name': f'm{idx}', 'params': params, 'ignore': ignore, 'stacked': rng.random() < 0.2, 'version': None if bare else rng.choice([None, None, '1', '2', '2024/05', 'exp/2', 0, '']),
            'bare': bare}


def method_source(m):
    parts = ['self']
    kw_started = False
    for p in m['params']:
        if p['kind'] == 'kw' and not kw_started:
            parts.append('*')
            kw_started = True
        parts.append(p['name'] + (f'={p["default"]!r}' if p['has_default'] else ''))
    if m.get('shared_deco'):
        deco = '@_memo'            # one decorator object applied to several methods of the class
    elif m['bare']:
        deco = '@cached'
    else:
        args = []
        if m['ignore']:
            args.append(f'ignore_kwargs={m["ignore"]!r}')
        if m['version'] is not None:
            args.append(f'version={m["version"]!r}')
        if m.get('external'):
            args.insert(0, '_EXT')
        deco = f'@cached({", ".join(args)})'
    names = [p['name'] for p in m['params']]
    body = 'dict(' + ', '.join(f'{n}={n}' for n in names) + ')'
    inner = '    @_passthrough\n' if m.get('stacked') else ''       # another well-behaved (functools.wraps) decorator between @cached and the function
    return f'    {deco}\n{inner}    def {m["name"]}({", ".join(parts)}):\n        return _exec(self, {m["name"]!r}, {body})\n'


def canonical_binding(m, args, kwargs):
    """independent model: python's own binding rules"""
    ps = [inspect.Parameter('self', inspect.Parameter.POSITIONAL_OR_KEYWORD)]
    for p in m['params']:
        kind = inspect.Parameter.POSITIONAL_OR_KEYWORD if p['kind'] == 'pos' else inspect.Parameter.KEYWORD_ONLY
        ps.append(inspect.Parameter(p['name'], kind, default=p['default'] if p['has_default'] else inspect.Parameter.empty))
    sig = inspect.Signature(ps)
    b = sig.bind(None, *args, **kwargs)
    b.apply_defaults()
    d = dict(b.arguments)
    d.pop('self')
    full = json.dumps(d, sort_keys=True)
    for n in m['ignore']:
        d.pop(n, None)
    return json.dumps(d, sort_keys=True), full


def spell(rng, m, binding):
    pos = [p for p in m['params'] if p['kind'] == 'pos']
    k = rng.randint(0, len(pos))
    binding = {n: reorder(rng, v) for n, v in binding.items()}
    args = [binding[p['name']] for p in pos[:k]]
    rest = pos[k:] + [p for p in m['params'] if p['kind'] == 'kw']
    rng.shuffle(rest)
    kwargs = {}
    omitted_kwonly_default = False
    for p in rest:
        if p['has_default'] and binding[p['name']] == p['default'] and json.dumps(binding[p['name']]) == json.dumps(p['default']) \
                and rng.random() < 0.5:
            if p['kind'] == 'kw':
                omitted_kwonly_default = True
            continue
        kwargs[p['name']] = binding[p['name']]
    return args, kwargs, omitted_kwonly_default


def gen_binding(rng, m, near=None):
    if near is not None and m['params'] and rng.random() < 0.6:
        b = dict(near)
        p = rng.choice(m['params'])
        choices = [v for v in POOL if json.dumps(v) != json.dumps(b[p['name']])]
        b[p['name']] = rng.choice(choices)
        return b
    b = {}
    for p in m['params']:
        if p['has_default'] and rng.random() < 0.5:
            b[p['name']] = p['default']
        else:
            b[p['name']] = rng.choice(POOL)
    return b


def run_class(rng, res: CaseResult, cache_kind):
    from taskchain import cache as tcache
    methods = [gen_method(rng, i) for i in range(rng.randint(1, 3))]
    # make two methods comparable for isolation checks: same params, different name / version
    if len(methods) >= 2 and rng.random() < 0.5:
        methods[1] = dict(methods[0], name='m1', version=None if methods[0]['bare'] else rng.choice([None, '1', '2', '2024/05', 'exp/2', 'exq/2', 0, '']))
    if len(methods) >= 2 and rng.random() < 0.3:
        # same method *name* is impossible in one class; version isolation is exercised by a second class below
        pass
    tmp = None
    execs = []

    fail_next = [False]

    def _exec(obj, name, b):
        execs.append((name, json.dumps(b, sort_keys=True)))
        if fail_next[0]:
            fail_next[0] = False
            raise MethodBoom(name)
        return [name, len(execs), 'uniq']

    shared_line = ''
    if len(methods) >= 2 and rng.random() < 0.35:
        # `memo = cached(...)` written once and applied to several methods: same version and ignore list for all of them (names that every method has)
        common_ignore = [n for n in methods[0]['ignore'] if all(any(p['name'] == n for p in m['params']) for m in methods)]
        ver = methods[0]['version']
        a_ = ([f'ignore_kwargs={common_ignore!r}'] if common_ignore else []) + ([f'version={ver!r}'] if ver is not None else [])
        shared_line = f'    _memo = cached({", ".join(a_)})\n'
        methods = [dict(m, shared_deco=True, bare=False, version=ver, ignore=list(common_ignore)) for m in methods]
        res.count('classes_with_one_decorator_object_for_several_methods')
    all_equal = rng.random() < 0.3
    eq_lines = '    def __eq__(self, other):\n        return type(other) is type(self)\n    def __hash__(self):\n        return 7\n' if all_equal else ''
    # (a third of the classes are value objects: all their instances compare equal -- each instance still has its own cache)
    src = 'class K:\n' + shared_line + '    def __init__(self, cache):\n        self.cache = cache\n' + eq_lines + ''.join(method_source(m) for m in methods)
    # second class: same method names but another version -> must not share entries when using the same own cache
    methods_v = [dict(m, version=('9' if m['version'] != '9' else '8'), bare=False, shared_deco=False) for m in methods]
    derived = rng.random() < 0.5
    # (half of the time the second class overrides the methods of the first under another version; the base implementations stay reachable on its objects)
    src += f'class KV{"(K)" if derived else ""}:\n    def __init__(self, cache):\n        self.cache = cache\n' + ''.join(method_source(m) for m in methods_v)
    import functools as _ft

    def _passthrough(fn):
        @_ft.wraps(fn)
        def wrapper(*a, **k):
            return fn(*a, **k)
        return wrapper
    ns = {'cached': tcache.cached, '_exec': _exec, '_passthrough': _passthrough}
    exec(src, ns)
    try:
        if cache_kind == 'json':
            tmp = Path(tempfile.mkdtemp(prefix='c16-'))
            cache = tcache.JsonCache(tmp)
            res.count('json_cache_classes')
        else:
            cache = tcache.InMemoryCache()
        obj = ns['K'](cache)
        objv = ns['KV'](cache)
        # a second object of the first class with a cache of ITS OWN
        tmp2 = Path(tempfile.mkdtemp(prefix='c16b-')) if cache_kind == 'json' else None
        obj2 = ns['K'](tcache.JsonCache(tmp2) if cache_kind == 'json' else tcache.InMemoryCache())
        model = {}   # (method, version, key) -> value
        seq = []
        seen_spellings = {}
        respelled = False
        bindings = {m['name']: [] for m in methods}
        n_calls = rng.randint(6, 24)
        for step in range(n_calls):
            use_v = rng.random() < (0.3 if derived else 0.15)
            mlist = methods_v if use_v else methods
            m = rng.choice(mlist)
            target = objv if use_v else obj
            base_on_derived = derived and not use_v and rng.random() < 0.3
            if base_on_derived:
                # super().m(...): the base implementation (its name and version) on an object of the overriding class
                target = super(ns['KV'], objv)
                res.count('base_version_calls_on_overriding_object')
            prev = bindings[m['name']]
            if prev and rng.random() < 0.6:
                base = rng.choice(prev)
                binding = dict(base) if rng.random() < 0.6 else gen_binding(rng, m, near=base)
                if m['ignore'] and rng.random() < 0.4:
                    n = rng.choice(m['ignore'])
                    binding = dict(base)
                    binding[n] = rng.choice([v for v in POOL if json.dumps(v) != json.dumps(base[n])])
            else:
                binding = gen_binding(rng, m)
            prev.append(binding)
            args, kwargs, kwonly_omit = spell(rng, m, binding)
            if kwonly_omit:
                res.count('kwonly_default_spellings')
            key, full = canonical_binding(m, args, kwargs)
            mk = (m['name'], m['version'], key)
            on_second = not use_v and not base_on_derived and rng.random() < 0.2
            if on_second:
                target = obj2
                mk = (m['name'], m['version'], key, 'second object')
                res.count('calls_on_a_second_object_with_its_own_cache')
                if all_equal:
                    res.count('calls_on_a_second_object_that_compares_equal_to_the_first')
            ctrl = rng.random()
            control = {}
            if ctrl < 0.12:
                control = {'force_cache': True}
            elif ctrl < 0.27:
                control = {'only_cache': True}
            elif ctrl < 0.40:
                control = {'store_cache_value': ['stored', step]}
                if rng.random() < 0.3:
                    # every value the cache can hold may be supplied, also the falsy ones (None is a legal cached value of both cache types used here)
                    control['store_cache_value'] = rng.choice([None, 0, False, [], {}, '', {'x': None}])
                    res.count('falsy_store_values')
                if rng.random() < 0.3:
                    control['force_cache'] = True
            n_before = len(execs)
            call_desc = {'class': 'KV' if use_v else ('K on a KV(K) object' if base_on_derived else ('K (second object, own cache)' if on_second else 'K')), 'method': m['name'], 'version': m['version'], 'args': args, 'kwargs': kwargs, **control}
            seq.append(call_desc)
            wit = {'source': src, 'cache': cache_kind, 'calls': seq}
            failing = control == {'force_cache': True} and rng.random() < 0.3
            if failing:
                # the forced recomputation fails: the entry that was stored before stays (and nothing is stored if there was none)
                fail_next[0] = True
                call_desc['method_raises'] = True
                try:
                    getattr(target, m['name'])(*args, **kwargs, **control)
                    res.violate(f'call {call_desc}: the method raised but the call returned normally', witness=wit)
                    return
                except MethodBoom:
                    res.count('failing_forced_calls')
                except Exception as e:
                    res.violate(f'call {call_desc}: the method raised MethodBoom but the call raised {type(e).__name__}: {e}', witness=wit)
                    return
                fail_next[0] = False
                continue
            try:
                got = getattr(target, m['name'])(*args, **kwargs, **control)
            except Exception as e:
                res.violate(f'call {call_desc} raised {type(e).__name__}: {e}', witness=wit)
                return
            res.count('calls')
            ran = len(execs) - n_before
            spelled = json.dumps([args, sorted(kwargs.items(), key=str)], sort_keys=True, default=str)
            sp = seen_spellings.setdefault(mk, set())
            had_other_spelling = bool(sp - {spelled})
            sp.add(spelled)
            if had_other_spelling:
                respelled = True
            present = mk in model
            if 'only_cache' in control:
                res.count('only_cache_calls')
                exp_ran = 0
                exp_val = model[mk] if present else tcache.NO_VALUE
            elif 'store_cache_value' in control:
                res.count('store_value_calls')
                exp_ran = 0
                if not present or control.get('force_cache'):
                    model[mk] = control['store_cache_value']
                exp_val = model[mk]
            elif control.get('force_cache'):
                res.count('force_calls')
                exp_ran = 1
                exp_val = None  # value of this execution
            else:
                exp_ran = 0 if present else 1
                exp_val = model[mk] if present else None
                if present and had_other_spelling:
                    res.count('respelled_hits')
                    if any(has_multikey_dict(v) for v in binding.values()):
                        res.count('respelled_hits_with_reordered_mappings')
                if present:
                    fulls = seen_full.setdefault(mk, set()) if False else None
                if not present and any(k[0] == m['name'] and k[1] == m['version'] for k in model):
                    res.count('different_binding_misses')
            if ran != exp_ran:
                why = 'although an entry for the same binding exists' if exp_ran == 0 and ran else 'but the method had to be executed'
                res.violate(f'call {call_desc}: method executed {ran}x, expected {exp_ran}x {why} (binding key {key})', witness=wit)
                return
            if exp_ran == 1:
                exp_val = [m['name'], len(execs), 'uniq']
                if execs[-1][0] != m['name'] or execs[-1][1] != full:
                    res.violate(f'call {call_desc}: method executed with arguments {execs[-1]} but the call binds {full}', witness=wit)
                    return
                model[mk] = exp_val
            if got is not exp_val and got != exp_val:
                res.violate(f'call {call_desc}: returned {got!r}, expected {exp_val!r} (entry for binding {key})', witness=wit)
                return
            if m['ignore'] and present and 'only_cache' not in control and exp_ran == 0 and full not in fulls_seen.setdefault(mk, set()):
                res.count('ignored_arg_hits')
            fulls_seen.setdefault(mk, set()).add(full)
        # entry counts per (method, version)
        groups = {}
        for (name, ver, key, *second) in model:
            if not second:
                groups.setdefault((name, ver), set()).add(key)
        for (name, ver), keys in groups.items():
            sub = name if ver is None else f'{name}.{ver}'
            if cache_kind == 'json':
                n = len(list((tmp / sub).glob('*/*.json')))
            else:
                n = len(cache.subcache(sub))
            res.count('own_cache_entry_counts')
            if n != len(keys):
                res.violate(f'cache of method {sub} holds {n} entries, the calls made bind {len(keys)} distinct keys', witness=wit)
                return
        res.count('version_isolation_checks', sum(1 for c in seq if c['class'] == 'KV'))
        if respelled:
            res.nt(jhash([src, seq]))
        if res.sample is None:
            res.sample = {'source': src, 'cache': cache_kind, 'calls': seq[:6]}
    finally:
        if tmp:
            shutil.rmtree(tmp, ignore_errors=True)
        if 'tmp2' in locals() and tmp2:
            shutil.rmtree(tmp2, ignore_errors=True)


fulls_seen = {}
seen_full = {}


def run_case(case) -> CaseResult:
    res = CaseResult()
    rng = random.Random(case['seed'])
    for i in range(case['n']):
        fulls_seen.clear()
        run_class(rng, res, 'json' if i % 4 == 0 else 'memory')
        if res.violations:
            break
    return res


def cases(tier, seed):
    rng = random.Random(f'c16-{seed}')
    n = 100 if tier == 'quick' else 5000
    for i in range(n):
        yield {'n': 20, 'seed': rng.randrange(1 << 30)}
