"""C17 — parallel_map equals map, whatever the scheduling.

The element function `f` blocks on a per-element event; a controller thread watches which elements are
in flight (at most `threads`) and releases them in a dictated order, so the completion order of the
workers is chosen by the check.  For small chunks every feasible completion order is enumerated.
"""
from __future__ import annotations

import itertools
import random
import threading
import time

from ..core import CaseResult, jhash

LEVEL = 'exploration'
RULE = ('case = (implementation, input length, threads, chunk size, sort flag, input kind, raising elements, '
        'completion-order policy); for small configurations ALL feasible completion orders are enumerated by DFS '
        'over controller choices. distinct = distinct realised (impl, n, threads, chunk, sort, raise-set, '
        'finish sequence) tuples measured from f itself; non-trivial = threads>1 and n>=2 (a real pool ran) '
        'or a chunked() case with a non-multiple length')
REQUIRED = ['parallel_runs', 'inputs_with_a_none_element', 'input_kind_np', 'input_kind_series', 'input_kind_gen', 'exceptions_propagated_two', 'exceptions_propagated_fnf', 'exceptions_propagated_stop', 'exceptions_propagated_base', 'exceptions_propagated_single_thread', 'runs_with_exc_outputs', 'runs_with_none_outputs', 'runs_with_dict_outputs', 'orders_out_of_input_order', 'exceptions_propagated', 'chunked_checked',
            'unsorted_runs', 'exhaustive_configs']
ASSUMPTIONS = ['parallel_map is called from the main thread of a process (it needs the thread\'s asyncio event loop)',
               'completion order is dictated by releasing blocked calls of f one at a time; the realised order is '
               'measured from f\'s own finish sequence']
BUDGET = {'quick': 45, 'thorough': 600}
WATCHDOG = 20.0
HANG_LIMIT = 45
NONE_ID = 99


class HangTimeout(BaseException):
    pass


class BoomError(Exception):
    pass


def out_of(x):
    # unique per element, deliberately NOT monotone in x (a sort by result must not look like a sort by index)
    return ((x * 2654435761) % 1000003, x)


class AbortBase(BaseException):
    """not an Exception subclass"""


class TwoArgError(Exception):
    """application error whose constructor takes two arguments"""

    def __init__(self, item, status):
        super().__init__(item, status)
        self.item, self.status = item, status


RAISE_TYPES = {'boom': BoomError, 'stop': StopIteration, 'base': AbortBase, 'key': KeyError, 'two': TwoArgError, 'fnf': FileNotFoundError, 'uni': UnicodeDecodeError,
               'rte': RuntimeError, 'nie': NotImplementedError, 'rec': RecursionError, 'val': ValueError, 'os': OSError, 'asrt': AssertionError}
RAISE_MAKERS = {'two': lambda x: TwoArgError(x, 503), 'fnf': lambda x: FileNotFoundError(2, 'No such file or directory', f'/data/{x}'),
                'uni': lambda x: UnicodeDecodeError('utf-8', b'\xff' + str(x).encode(), 0, 1, 'invalid start byte')}


def same_exception(exc, originals):
    """the propagated exception is one f raised: the same object, or at least an equal one (type, args, OS error details)"""
    for o in originals:
        if exc is o:
            return True
        if type(exc) is type(o) and exc.args == o.args and getattr(exc, 'errno', None) == getattr(o, 'errno', None) \
                and getattr(exc, 'filename', None) == getattr(o, 'filename', None):
            return True
    return False


def in_chain(exc, typ):
    seen = 0
    while exc is not None and seen < 10:
        if isinstance(exc, typ):
            return True
        exc = exc.__cause__ or exc.__context__
        seen += 1
    return False


class ReturnedError(Exception):
    """an exception object that f RETURNS as an ordinary value (never raised)"""


class Hostile:
    """a result object that refuses to be compared, hashed, measured or tested for truth: a map only has to hand it over"""
    __slots__ = ('x',)

    def __init__(self, x):
        self.x = x

    def __repr__(self):
        return f'Hostile({self.x})'

    def _no(self, *a, **k):
        raise TypeError('result objects are opaque to the map')
    __eq__ = __ne__ = __lt__ = __le__ = __gt__ = __ge__ = __bool__ = __len__ = __hash__ = __iter__ = _no


def make_out(kind):
    """element -> output; every output identifies its element; kinds other than `tuple` are values a map must pass through untouched"""
    if kind == 'exc':
        return lambda x: ReturnedError(x) if x % 3 != 1 else out_of(x)
    if kind == 'none':
        return lambda x: None if x % 2 else out_of(x)
    if kind == 'dict':
        return lambda x: {'x': x, 'h': out_of(x)[0]}           # not orderable
    if kind == 'falsy':
        return lambda x: [0, '', [], False, 0.0][x % 5] if x % 2 else out_of(x)
    if kind == 'array':
        import numpy as np
        return lambda x: np.array([x, out_of(x)[0], x % 7])   # ==, bool(), < are element-wise / ambiguous
    if kind == 'series':
        import pandas as pd
        return lambda x: pd.Series([x, out_of(x)[0]], index=['x', 'h']) if x % 2 else pd.DataFrame({'x': [x, x + 1], 'h': [out_of(x)[0], 0]})
    if kind == 'hostile':
        return lambda x: Hostile(x)
    return out_of


class Controller:
    """Dictates the order in which blocked calls of f return."""

    def __init__(self, xs, threads, chunks, chooser, raise_set):
        self.cond = threading.Condition()
        self.inflight = {}           # x -> Event
        self.calls = {}
        self.finish_seq = []
        self.window_sizes = []
        self.choices = []
        self.chooser = chooser       # f(step, sorted_inflight) -> index
        self.threads = threads
        self.chunks = chunks         # list of lists (model of chunk layout)
        self.raise_set = raise_set
        self.out = out_of
        self.raise_maker = BoomError
        self.raised = []
        self.main_done = False
        self.timeout = False
        self.sequential = threads == 1
        self.thread = threading.Thread(target=self._loop, daemon=True)

    # called by workers ------------------------------------------------------------------------
    def f(self, x):
        if hasattr(x, 'item'):
            x = x.item()          # elements of numpy / pandas inputs
        if x is None:
            x = NONE_ID           # the element None (at most one per input), an element like any other
        ev = threading.Event()
        with self.cond:
            self.calls[x] = self.calls.get(x, 0) + 1
            repeated = self.calls[x] > 1
            if not repeated:
                self.inflight[x] = ev
                self.cond.notify_all()
        if repeated:
            # a second call for the same element is already a violation (judged from `calls`); the controller has no slot for it: do not block
            if x in self.raise_set:
                raise self.raise_maker(x)
            return self.out(x)
        if not ev.wait(WATCHDOG):
            self.timeout = True
        with self.cond:
            self.finish_seq.append(x)
            del self.inflight[x]
            self.cond.notify_all()
        if x in self.raise_set:
            e = self.raise_maker(x)
            self.raised.append(e)
            raise e
        return self.out(x)

    # controller thread ------------------------------------------------------------------------
    def _loop(self):
        step = 0
        for chunk in self.chunks:
            finished = 0
            n = len(chunk)
            while finished < n:
                if getattr(self, 'pause', 0) and finished == n - 1 and n > 1:
                    time.sleep(self.pause)        # one element of the chunk takes long (wall clock), the others finished long before
                expected = min(self.threads, n - finished)
                with self.cond:
                    ok = self.cond.wait_for(lambda: len(self.inflight) >= expected or self.main_done, WATCHDOG)
                    if self.main_done and not self.inflight:
                        return
                    if not ok:
                        self.timeout = True
                    if not self.inflight:
                        return
                    cur = sorted(self.inflight)
                    idx = self.chooser(step, cur) % len(cur)
                    self.window_sizes.append(len(cur))
                    self.choices.append(idx)
                    x = cur[idx]
                    before = len(self.finish_seq)
                    self.inflight[x].set()
                    ok = self.cond.wait_for(lambda: len(self.finish_seq) > before, WATCHDOG)
                    if not ok:
                        self.timeout = True
                        return
                finished += 1
                step += 1
                if not self.sequential:
                    time.sleep(0.0005)  # let the future resolve before the next release (order fidelity only)

    def release_all(self):
        with self.cond:
            self.main_done = True
            for ev in self.inflight.values():
                ev.set()
            self.cond.notify_all()


def model_chunks(xs, impl, threads, chunksize):
    if impl == 'iter' or threads == 1:
        return [list(xs)] if xs else []
    return [xs[i:i + chunksize] for i in range(0, len(xs), chunksize)]


def run_once(cfg, prefix):
    """Execute the real parallel_map once under the controller; returns observation dict."""
    from taskchain.utils import threading as tthreading
    from taskchain.utils import iter as titer
    n, threads, chunksize = cfg['n'], cfg['threads'], cfg['chunk']
    xs = list(range(100, 100 + n)) if not cfg.get('base0') else list(range(n))
    raise_set = set(xs[i] for i in cfg.get('raise', []))
    policy = cfg.get('policy', 'prefix')
    rng = random.Random(cfg.get('pseed', 0))

    def chooser(step, cur):
        if step < len(prefix):
            return prefix[step]
        if policy == 'random':
            return rng.randrange(len(cur))
        if policy == 'reverse':
            return len(cur) - 1
        if policy == 'rotate':
            return step
        return 0

    chunks = model_chunks(xs, cfg['impl'], threads, chunksize)
    ctl = Controller(xs, threads, chunks, chooser, raise_set)
    ctl.out = make_out(cfg.get('out', 'tuple'))
    ctl.raise_maker = RAISE_MAKERS.get(cfg.get('raise_type', 'boom')) or RAISE_TYPES[cfg.get('raise_type', 'boom')]
    elems = list(xs)
    if cfg.get('none_at') is not None and n:
        k_ = cfg['none_at'] % n
        xs[k_] = NONE_ID
        elems = [None if i == k_ else x for i, x in enumerate(xs)]
        raise_set = set(xs[i] for i in cfg.get('raise', []))
        chunks = model_chunks(xs, cfg['impl'], threads, chunksize)
        ctl = Controller(xs, threads, chunks, chooser, raise_set)
        ctl.out = make_out(cfg.get('out', 'tuple'))
        ctl.raise_maker = RAISE_MAKERS.get(cfg.get('raise_type', 'boom')) or RAISE_TYPES[cfg.get('raise_type', 'boom')]
    inp = elems if cfg.get('input', 'list') == 'list' else (x for x in elems)
    if cfg.get('input') == 'tuple':
        inp = tuple(elems)
    elif cfg.get('input') == 'iter':
        inp = iter(elems)
    elif cfg.get('input') == 'map':
        inp = map(lambda v: v, elems)
    if cfg.get('input') == 'viewlist':
        # a list subclass whose ITERATION delivers other objects than its stored slots (raw cells stored, parsed values delivered)
        class ViewList(list):
            def __iter__(self_):
                return (v[1] for v in list.__iter__(self_))

            def __getitem__(self_, k):
                raise TypeError('ViewList is meant to be iterated')
        inp = ViewList([('raw', v) for v in elems])
    extra = {}
    if cfg.get('total'):
        # the documented size hint for the progress bar: exact, or an estimate that is too small / too large (a hint never changes the result)
        extra['total'] = {'under': len(elems) // 2, 'zero': 0, 'over': len(elems) + 3}.get(cfg['total'], len(elems))
    elif cfg.get('input') in ('np', 'series', 'index', 'dict', 'range'):
        # iterables with their own idea of truth / equality
        import numpy as np
        import pandas as pd
        inp = {'np': lambda: np.array(xs, dtype='int64'), 'series': lambda: pd.Series(xs, dtype='int64'), 'index': lambda: pd.Index(xs),
               'dict': lambda: dict.fromkeys(xs), 'range': lambda: range(xs[0], xs[0] + len(xs)) if xs else range(0)}[cfg['input']]()
    ctl.pause = cfg.get('pause', 0)
    fun = ctl.f
    how = cfg.get('callable', 'method')
    if how == 'partial':
        import functools
        fun = functools.partial(ctl.f)               # no __name__
    elif how == 'instance':
        class Mapper:                                 # callable object, no __name__
            def __call__(self_, x):
                return ctl.f(x)
        fun = Mapper()
    elif how == 'itemgetter_chain':
        import functools
        fun = functools.partial(lambda k, x: ctl.f(x), 'k')
    ctl.thread.start()
    exc = None
    result = None
    hung = False
    import signal

    def _alarm(signum, frame):
        raise HangTimeout()
    old_handler = signal.signal(signal.SIGALRM, _alarm)
    signal.alarm(HANG_LIMIT)
    try:
        if cfg['impl'] == 'threading':
            result = tthreading.parallel_map(fun, inp, threads=threads, sort=cfg.get('sort', True),
                                             use_tqdm=cfg.get('tqdm', False), chunksize=chunksize, **extra)
        elif cfg['impl'] == 'starmap':
            result = tthreading.parallel_starmap(lambda a, b: fun(a), [(x, 0) for x in xs], threads=threads,
                                                 sort=cfg.get('sort', True), use_tqdm=False, chunksize=chunksize, **extra)
        else:
            result = titer.parallel_map(fun, inp, threads=threads, **extra)
    except HangTimeout:
        hung = True
    except BaseException as e:  # noqa
        exc = e
    finally:
        signal.alarm(0)
        signal.signal(signal.SIGALRM, old_handler)
        ctl.release_all()
        ctl.thread.join(WATCHDOG)
    if hung:
        import asyncio
        asyncio.set_event_loop(asyncio.new_event_loop())      # the old loop still holds the never-completing future
    return {'xs': xs, 'result': result, 'exc': exc, 'calls': dict(ctl.calls), 'finish': list(ctl.finish_seq),
            'windows': list(ctl.window_sizes), 'choices': list(ctl.choices), 'timeout': ctl.timeout,
            'chunks': chunks, 'raise_set': raise_set, 'raised': list(ctl.raised), 'hung': hung, 'inflight_at_end': len(ctl.inflight)}


def judge(cfg, ob, res: CaseResult):
    xs, result, exc = ob['xs'], ob['result'], ob['exc']
    wit = {'cfg': cfg, 'choices': ob['choices'], 'finish': ob['finish'], 'result': repr(result)[:400],
           'exc': repr(exc)}
    if ob.get('hung'):
        started = len(ob['calls'])
        if len(ob['finish']) == started and not ob['timeout']:
            # logical part of the verdict: every call of f that was started has finished (raised or returned) and nothing is blocked by the
            # controller, yet parallel_map did not return for HANG_LIMIT seconds
            res.violate(f'parallel_map did not return: all {started} started calls of f had finished (raising elements {sorted(ob["raise_set"])}, '
                        f'raise type {cfg.get("raise_type", "boom")}) and the call was still blocked after {HANG_LIMIT}s', witness=wit, facts={'tag': 'hang'})
        else:
            res.inconclusive.append(f'call did not return within {HANG_LIMIT}s while calls of f were still in flight: {cfg}')
        return
    if ob['timeout']:
        res.inconclusive.append(f'controller watchdog fired for {cfg}')
        return
    res.count('input_kind_' + cfg.get('input', 'list'))
    if cfg.get('none_at') is not None:
        res.count('inputs_with_a_none_element')
    if cfg.get('pause'):
        res.count('runs_with_a_slow_element')
    if cfg.get('callable', 'method') != 'method':
        res.count('runs_with_callables_without_a_name')
    if cfg.get('total') in ('under', 'zero', 'over'):
        res.count('runs_with_an_inaccurate_total_hint')
    if cfg.get('total'):
        res.count('runs_with_total_hint')
        if cfg.get('input') in ('gen', 'iter', 'map'):
            res.count('runs_with_total_hint_on_one_shot_input')
    out = make_out(cfg.get('out', 'tuple'))
    expect = [out(x) for x in xs]
    if cfg.get('out', 'tuple') != 'tuple':
        res.count('runs_with_' + cfg['out'] + '_outputs')
    if ob['raise_set']:
        if exc is None:
            res.violate(f'f raised for elements {sorted(ob["raise_set"])} but parallel_map returned {repr(result)[:200]}',
                        witness=wit)
        elif not in_chain(exc, RAISE_TYPES[cfg.get('raise_type', 'boom')]) or (cfg.get('raise_type', 'boom') != 'stop' and not same_exception(exc, ob['raised'])):
            # (python's futures cannot carry a StopIteration: it arrives wrapped in a RuntimeError whose cause it is -- accepted; a normal return is not)
            res.violate(f'f raised {RAISE_TYPES[cfg.get("raise_type", "boom")].__name__} but parallel_map raised {type(exc).__name__}: {exc}', witness=wit)
        else:
            res.count('exceptions_propagated')
            res.count('exceptions_propagated_' + cfg.get('raise_type', 'boom'))
            if cfg['threads'] == 1:
                res.count('exceptions_propagated_single_thread')
        if any(c > 1 for c in ob['calls'].values()):
            res.violate(f'f invoked more than once for an element: {ob["calls"]}', witness=wit)
        return
    if exc is not None:
        res.violate(f'parallel_map raised {type(exc).__name__}: {exc} although f never raises', witness=wit)
        return
    if any(ob['calls'].get(x, 0) != 1 for x in xs) or len(ob['calls']) != len(xs):
        res.violate(f'f not invoked exactly once per element: {ob["calls"]}', witness=wit)
    if cfg.get('sort', True) or cfg['impl'] == 'iter':
        if repr(result) != repr(expect):
            res.violate(f'result differs from sequential map: got {repr(result)[:300]} expected {repr(expect)[:300]} '
                        f'(finish order {ob["finish"]})', witness=wit)
    else:
        res.count('unsorted_runs')
        pos = 0
        ok = isinstance(result, list) and len(result) == len(expect)
        if ok:
            for ch in ob['chunks']:
                sl = result[pos:pos + len(ch)]
                if sorted(map(repr, sl)) != sorted(repr(out(x)) for x in ch):
                    ok = False
                pos += len(ch)
        if not ok:
            res.violate(f'sort=False: result is not a per-chunk permutation: {repr(result)[:300]} chunks={ob["chunks"]}',
                        witness=wit)
    if cfg['threads'] > 1 and len(xs) >= 2:
        res.count('parallel_runs')
        res.nt(jhash([cfg['impl'], cfg['n'], cfg['threads'], cfg['chunk'], cfg.get('sort', True), ob['finish']]))
        if ob['finish'] != sorted(ob['finish']):
            res.count('orders_out_of_input_order')


def check_chunked(cfg, res: CaseResult):
    from taskchain.utils.iter import chunked
    n, c = cfg['n'], cfg['chunk']
    xs = list(range(n))
    for kind in ('list', 'gen', 'str', 'nones', 'falsy'):
        if kind == 'list':
            inp, ref = xs, xs
        elif kind == 'nones':
            # elements that are None (every third one and the last ones): elements like any other
            ref = [None if (i % 3 == 2 or i >= n - 2) else i for i in xs]
            inp = list(ref)
        elif kind == 'falsy':
            ref = [[None, 0, '', (), False, 0.0, []][i % 7] for i in xs]
            inp = iter(list(ref))
        elif kind == 'gen':
            inp, ref = (x for x in xs), xs
        else:
            ref = [chr(97 + i % 26) for i in xs]
            inp = ''.join(ref)
        try:
            got = list(chunked(inp, c))
        except Exception as e:
            res.violate(f'chunked raised {type(e).__name__}: {e} for n={n} chunksize={c} input={kind}')
            continue
        res.count('chunked_checked')
        flat = [v for ch in got for v in ch]
        bad = None
        if flat != list(ref):
            bad = 'concatenation differs from the input'
        elif any(len(ch) == 0 for ch in got):
            bad = 'empty chunk'
        elif any(len(ch) != c for ch in got[:-1]):
            bad = 'a non-last chunk has the wrong size'
        elif got and not (0 < len(got[-1]) <= c):
            bad = 'last chunk has the wrong size'
        elif len(got) != (n + c - 1) // c:
            bad = 'wrong number of chunks'
        elif any(not isinstance(ch, list) for ch in got):
            bad = None  # container type is not part of the statement
        if bad:
            res.violate(f'chunked(n={n}, chunksize={c}, input={kind}): {bad}: {repr(got)[:300]}',
                        witness={'n': n, 'chunk': c, 'kind': kind})
        if n % c:
            res.nt(jhash(['chunked', n, c, kind]))


def enumerate_schedules(cfg, res: CaseResult, cap=4000):
    """DFS over all controller choice sequences for this configuration."""
    prefix = []
    count = 0
    complete = True
    while True:
        ob = run_once(cfg, prefix)
        judge(cfg, ob, res)
        count += 1
        if ob['timeout'] or res.violations:
            complete = False
            break
        choices, windows = ob['choices'], ob['windows']
        # next schedule in odometer order
        i = len(choices) - 1
        while i >= 0 and choices[i] + 1 >= windows[i]:
            i -= 1
        if i < 0:
            break
        prefix = choices[:i] + [choices[i] + 1]
        if count >= cap:
            complete = False
            break
    res.count('schedules_enumerated', count)
    if complete:
        res.count('exhaustive_configs')
    return complete, count


def run_case(case) -> CaseResult:
    res = CaseResult()
    kind = case['kind']
    if kind == 'chunked':
        for cfg in case['cfgs']:
            check_chunked(cfg, res)
        res.sample = {'kind': 'chunked', 'cfgs': case['cfgs'][:3]}
    elif kind == 'enum':
        complete, count = enumerate_schedules(case['cfg'], res)
        res.sample = {'kind': 'enum', 'cfg': case['cfg'], 'schedules': count, 'complete': complete}
        res.extra['exhaustive_by_config'] = {jhash(case['cfg']): 1 if complete else 0}
    else:
        last = None
        for cfg in case['cfgs']:
            ob = run_once(cfg, cfg.get('prefix', []))
            judge(cfg, ob, res)
            last = {'cfg': cfg, 'finish': ob['finish'], 'result': repr(ob['result'])[:120], 'exc': repr(ob['exc'])}
        res.sample = {'kind': 'runs', 'last': last}
    return res


def cases(tier, seed):
    rng = random.Random(f'c17-{seed}')
    # 1. chunked: all small (n, chunk) + random larger
    cfgs = [{'n': n, 'chunk': c} for n in range(0, 26) for c in range(1, 9)]
    cfgs += [{'n': rng.randrange(0, 3000), 'chunk': rng.randrange(1, 1200)} for _ in range(200)]
    cfgs += [{'n': 2500, 'chunk': 1}, {'n': 3100, 'chunk': 2}, {'n': 1200, 'chunk': 1}, {'n': 5000, 'chunk': 3}]      # thousands of chunks
    for i in range(0, len(cfgs), 80):
        yield {'kind': 'chunked', 'cfgs': cfgs[i:i + 80]}
    # 2. bounded-exhaustive completion orders
    enum_cfgs = []
    max_n = 5 if tier == 'quick' else 6
    for impl in ('threading', 'iter'):
        for n in range(2, max_n + 1):
            for threads in range(2, min(n, 5) + 1):
                if impl == 'iter':
                    enum_cfgs.append({'impl': impl, 'n': n, 'threads': threads, 'chunk': 1000})
                else:
                    for chunk in sorted({n, max(2, n - 1), 2, 3}):
                        if chunk > n:
                            continue
                        for sort in (True, False):
                            enum_cfgs.append({'impl': impl, 'n': n, 'threads': threads, 'chunk': chunk, 'sort': sort})
                            if n == 3:
                                for out in ('exc', 'none', 'dict', 'array', 'series', 'hostile'):
                                    enum_cfgs.append({'impl': impl, 'n': n, 'threads': threads, 'chunk': chunk, 'sort': sort, 'out': out})
    # exceptions under all orders for a few configs
    for impl in ('threading', 'iter'):
        for n, threads in ((3, 2), (4, 3), (4, 4)):
            for r in range(n):
                enum_cfgs.append({'impl': impl, 'n': n, 'threads': threads, 'chunk': n, 'raise': [r]})
                if n == 3:
                    for rt in ('stop', 'base', 'key', 'two', 'fnf', 'uni', 'rte', 'nie', 'rec', 'val', 'os', 'asrt'):
                        enum_cfgs.append({'impl': impl, 'n': n, 'threads': threads, 'chunk': n, 'raise': [r], 'raise_type': rt})
                        if impl == 'threading' and r == 1:
                            enum_cfgs.append({'impl': impl, 'n': n, 'threads': threads, 'chunk': rng.choice([2, n]), 'raise': [r], 'raise_type': rt, 'sort': False})
            enum_cfgs.append({'impl': impl, 'n': n, 'threads': threads, 'chunk': 2, 'raise': [0, n - 1]})
    rng.shuffle(enum_cfgs)
    for cfg in enum_cfgs:
        yield {'kind': 'enum', 'cfg': cfg}
    # 3a. the single-thread shortcut: every exception type, every position, with and without the progress bar wrapper
    seq = []
    for impl in ('threading', 'iter', 'starmap'):
        for rt in RAISE_TYPES:
            for r in (0, 2, 3):
                for tq in ((False, True) if impl == 'threading' else (False,)):
                    seq.append({'impl': impl, 'n': 4, 'threads': 1, 'chunk': rng.choice([1, 2, 1000]), 'sort': True, 'policy': 'random', 'pseed': 1,
                                'input': rng.choice(['list', 'gen', 'tuple']) if impl != 'starmap' else 'list', 'tqdm': tq, 'raise': [r], 'raise_type': rt})
    for i in range(0, len(seq), 12):
        yield {'kind': 'runs', 'cfgs': seq[i:i + 12]}
    # 3c. the element None at chunk boundaries and at the very end
    nn = []
    for impl in ('threading', 'iter'):
        for n, chunk, at in ((4, 2, 1), (4, 2, 3), (5, 2, 4), (6, 3, 2), (6, 3, 5), (3, 1000, 2), (7, 3, 0), (1, 1, 0), (2, 2, 1)):
            for threads in (1, 3):
                nn.append({'impl': impl, 'n': n, 'threads': threads, 'chunk': chunk, 'sort': True, 'policy': 'reverse', 'pseed': 1, 'input': rng.choice(['list', 'gen', 'tuple']),
                           'tqdm': False, 'none_at': at})
    for i in range(0, len(nn), 12):
        yield {'kind': 'runs', 'cfgs': nn[i:i + 12]}
    # 3b. inputs with their own truth value: one falsy element, several elements, none
    odd = []
    for impl in ('threading', 'iter'):
        for kind in ('np', 'series', 'index', 'dict', 'range', 'gen'):
            for n, threads in ((1, 1), (1, 3), (2, 2), (0, 2), (0, 1), (5, 3)):
                odd.append({'impl': impl, 'n': n, 'threads': threads, 'chunk': 2, 'sort': True, 'policy': 'reverse', 'pseed': 1, 'input': kind,
                            'tqdm': False, 'base0': True})
        # the size hint, on inputs that have no length of their own, around the chunk size
        for kind in ('gen', 'iter', 'map', 'list', 'tuple', 'range', 'viewlist'):
            for n, chunk, threads in ((3, 1000, 2), (4, 4, 3), (4, 3, 2), (5, 2, 4), (0, 3, 2), (1, 1, 2), (6, 1000, 1)):
                odd.append({'impl': impl, 'n': n, 'threads': threads, 'chunk': chunk, 'sort': rng.random() < 0.7, 'policy': 'random', 'pseed': n, 'input': kind,
                            'tqdm': impl == 'threading' and rng.random() < 0.5, 'total': rng.choice([True, True, 'under', 'over']) if kind != 'viewlist' else False, 'out': rng.choice(['tuple', 'array', 'hostile']),
                            'callable': rng.choice(['method', 'partial', 'instance'])})
    for i in range(0, len(odd), 12):
        yield {'kind': 'runs', 'cfgs': odd[i:i + 12]}
    # 3d. one slow element per chunk (most of a second of wall clock) while the rest of the chunk finished at once
    slow = []
    for impl in ('threading', 'iter'):
        for sort in (True, False):
            slow.append({'impl': impl, 'n': 5, 'threads': 5, 'chunk': 5 if impl == 'threading' else 1000, 'sort': sort, 'policy': 'random', 'pseed': 3, 'input': 'list',
                         'tqdm': impl == 'threading' and sort, 'pause': 0.8})
    slow.append({'impl': 'threading', 'n': 4, 'threads': 3, 'chunk': 2, 'sort': True, 'policy': 'reverse', 'pseed': 1, 'input': 'gen', 'tqdm': False, 'pause': 0.7, 'raise': [0], 'raise_type': 'key'})
    for cfg_ in slow:
        yield {'kind': 'runs', 'cfgs': [cfg_]}
    # 3. random / adversarial orders on larger inputs
    total = 150 if tier == 'quick' else 6000
    batch = []
    for i in range(total):
        impl = rng.choice(['threading', 'threading', 'iter', 'starmap'])
        threads = rng.choice([1, 2, 2, 3, 4, 5, 8])
        chunk = rng.choice([1, 2, 3, 4, 5, 6, 7, 1000])
        k = rng.randrange(0, 6)
        n = rng.choice([0, 1, k * chunk if chunk < 100 else k, max(0, k * chunk - 1) if chunk < 100 else k + 1,
                        k * chunk + 1 if chunk < 100 else k + 2, rng.randrange(0, 30)])
        n = min(n, 40)
        cfg = {'impl': impl, 'n': n, 'threads': threads, 'chunk': chunk,
               'sort': rng.random() < 0.7, 'policy': rng.choice(['random', 'reverse', 'rotate', 'random']),
               'pseed': rng.randrange(1 << 30), 'input': rng.choice(['list', 'list', 'gen', 'tuple', 'np', 'series', 'index', 'dict', 'range', 'iter', 'map', 'viewlist']),
               'callable': rng.choice(['method', 'method', 'partial', 'instance', 'itemgetter_chain']),
               'tqdm': rng.random() < 0.2, 'out': rng.choice(['tuple', 'tuple', 'exc', 'none', 'dict', 'falsy', 'array', 'series', 'hostile']),
               'total': rng.choice([False, False, False, True, True, 'under', 'zero', 'over'])}
        if impl == 'starmap':
            cfg['input'] = 'list'
        if n and rng.random() < 0.2:
            cfg['raise'] = sorted(rng.sample(range(n), rng.choice([1, 1, 2]) if n > 1 else 1))
            cfg['raise_type'] = rng.choice(['boom', 'boom', 'stop', 'base', 'key', 'two', 'fnf', 'uni', 'rte', 'nie', 'rec', 'val', 'os', 'asrt'])
        batch.append(cfg)
        if len(batch) == 10:
            yield {'kind': 'runs', 'cfgs': batch}
            batch = []
    if batch:
        yield {'kind': 'runs', 'cfgs': batch}
