"""C06 — stored values round-trip exactly.

Real tasks (one per generated value) are computed by one chain, then loaded by a fresh chain in the same process and by a
fresh interpreter; typed deep equality between what `run` returned, what the computing chain returned and what was loaded;
hashes of the stored files before/after loading.
"""
from __future__ import annotations

import hashlib
import json
import math
import os
import pickle
import random
import shutil
import subprocess
import sys
import tempfile
from pathlib import Path

from ..canon import tcanon, short
from ..core import CaseResult, jhash, REPO

LEVEL = 'exploration'
RULE = ('case = batch of generated values, one real task per value (JSONData dict/list/scalars incl. every falsy top-level value, '
        'NumpyData over all bool/int/uint/float/complex/U/S dtypes 0-d..4-d incl. zero-length axes, non-contiguous and big-endian, '
        'PandasData frames/series with Multi/duplicate/non-string labels, GeneratedData / GeneratedDataLazy sequences, ListOfNumpyData '
        'of 0..30 arrays, DirData trees); compute in chain 1, load in a fresh chain and in a fresh interpreter; oracle = typed deep '
        'equality (bool!=int, float bits, dtype, shape, order) + file hashes unchanged by load. non-trivial = value is not a flat '
        'scalar/empty container (depth>=2, or boundary number, or non-ASCII text, or >=2-d / non-default dtype array, or >=11 list items); '
        'distinct = typed canonical digest of (kind, value)')
REQUIRED = ['values', 'name_mode_cases', 'task_classes_derived_from_a_task_of_another_kind', 'failed_first_attempts', 'long_sequences', 'forced_type_morphs', 'loaded_arrays_mutated_in_place', 'loaded_json_values_mutated_in_place', 'json_values', 'numpy_values', 'pandas_values', 'generated_values', 'lazy_values', 'listnp_values', 'dir_values',
            'fresh_chain_loads', 'fresh_process_loads', 'file_hash_checks', 'falsy_top_level', 'zero_d_arrays', 'lists_over_10_arrays']
ASSUMPTIONS = ['with results named after configs, `<name>_tmp` and `<name>_error` are the library\'s work / error directory names of directory-type results (part of the '
               'on-disk layout): configs whose names differ by exactly these suffixes are not generated',
               'domain per the property statement: NaN/inf in JSON, tuples, non-string keys, lone surrogates, integers outside 64 bit, '
               'object/structured arrays are outside it and not generated',
               'mapping order is not demanded for JSON values (the saver sorts keys)',
               'FigureData/H5Data/ContinuesData are not in the statement\'s list and are not exercised here']
BUDGET = {'quick': 60, 'thorough': 1200}

CHARS = ['a', 'Z', '0', ' ', '\n', '\t', '\r', '"', "'", '\\', '/', 'é', 'ß', ' ', ' ', '\x00', '\x1c', '\x85', '́', '😀', '\U0001F1E8', '中',
         '﻿', '{', '}', '[', ',', ':', '\x7f', '퟿', '', '￿', '\U0010ffff']
BOUND_INTS = [0, 1, -1, 2 ** 31, -2 ** 31, 2 ** 53, 2 ** 53 + 1, -2 ** 53 - 1, 2 ** 63 - 1, -2 ** 63, 2 ** 63, 2 ** 64 - 1, 255, 256]
BOUND_FLOATS = [0.0, -0.0, 1.0, -1.0, 0.1, 1e-323, 5e-324, 2.2250738585072014e-308, 1.7976931348623157e308, -1.7976931348623157e308,
                1e22, 1e23, 0.30000000000000004, 123456789.12345678, 1e-7, 3.0, 2.5e-5]


def gen_str(rng):
    if rng.random() < 0.04:
        return rng.choice(['NaN', 'Infinity', '-Infinity', 'null', 'true', 'nan', 'inf'])       # text that spells a JSON / float literal is text
    return _gen_str(rng)


def _gen_str(rng):
    return ''.join(rng.choice(CHARS) for _ in range(rng.choice([0, 1, 1, 2, 5, 12])))


def gen_json(rng, depth=0, maxdepth=4):
    r = rng.random()
    if depth < maxdepth and r < 0.22:
        return [gen_json(rng, depth + 1, maxdepth) for _ in range(rng.choice([0, 1, 2, 3, 6]))]
    if depth < maxdepth and r < 0.44:
        return {gen_str(rng) + (str(i) if rng.random() < 0.7 else ''): gen_json(rng, depth + 1, maxdepth) for i in range(rng.choice([0, 1, 2, 4]))}
    if r < 0.55:
        return rng.choice(BOUND_INTS) if rng.random() < 0.6 else rng.randint(-10 ** 6, 10 ** 6)
    if r < 0.68:
        return rng.choice(BOUND_FLOATS) if rng.random() < 0.6 else rng.uniform(-1e6, 1e6)
    if r < 0.88:
        return gen_str(rng)
    return rng.choice([None, True, False])


def gen_json_top(rng):
    r = rng.random()
    if r < 0.12:
        return rng.choice([0, 0.0, False, '', [], {}, -0.0])
    if r < 0.2:
        v = 0
        for _ in range(rng.choice([10, 30, 60])):
            v = [v] if rng.random() < 0.5 else {'k': v}
        return v
    while True:
        v = gen_json(rng, 0, rng.choice([1, 2, 4, 6]))
        if v is not None:
            return v


def gen_array(rng, allow_big=True):
    import numpy as np
    if allow_big and rng.random() < 0.02:
        # files above round sizes (1 MiB): loaders that switch strategy for big files
        n = rng.choice([2 ** 17 + 3, 2 ** 18 + 1])
        a = (np.arange(n, dtype='float64') * 0.5 + rng.randrange(1000))
        return a if rng.random() < 0.5 else a.reshape(-1, 1)
    dt = rng.choice(['bool', 'int8', 'int16', 'int32', 'int64', 'uint8', 'uint16', 'uint32', 'uint64', 'float16', 'float32', 'float64',
                     'complex64', 'complex128', '<U1', '<U7', 'S1', 'S5', '>i4', '>f8', '>u2', '<i2', '>U3', 'float64', 'int64'])
    nd = rng.choice([0, 0, 1, 1, 2, 2, 3, 4])
    shape = tuple(rng.choice([0, 1, 2, 3, 5]) for _ in range(nd))
    n = int(np.prod(shape)) if shape else 1
    d = np.dtype(dt)
    if d.kind == 'b':
        flat = np.array([rng.random() < 0.5 for _ in range(n)], dtype=d)
    elif d.kind in 'iu':
        info = np.iinfo(d)
        flat = np.array([rng.choice([info.min, info.max, 0, 1, rng.randint(info.min, info.max)]) for _ in range(n)], dtype=d)
    elif d.kind == 'f':
        flat = np.array([rng.choice([0.0, -0.0, float('nan'), float('inf'), -float('inf'), 1.5, rng.uniform(-1e3, 1e3), 6e-8]) for _ in range(n)], dtype=d)
    elif d.kind == 'c':
        flat = np.array([complex(rng.uniform(-5, 5), rng.choice([0.0, float('nan'), rng.uniform(-5, 5)])) for _ in range(n)], dtype=d)
    elif d.kind == 'U':
        flat = np.array([''.join(rng.choice(['a', 'é', '😀', ' ', '']) for _ in range(rng.randint(0, 7))) for _ in range(n)], dtype=d)
    else:
        flat = np.array([bytes(rng.choice([65, 0x80, 0xff, 32, 97]) for _ in range(rng.randint(0, 5))) for _ in range(n)], dtype=d)
    a = flat.reshape(shape)
    how = rng.random()
    if nd >= 2 and how < 0.2:
        a = np.asfortranarray(a)
    elif nd >= 1 and how < 0.4 and all(s > 0 for s in shape):
        big = np.repeat(a, 2, axis=0)
        a = big[::2]                  # non-contiguous view with the same values
    elif nd >= 2 and how < 0.5:
        a = a.T
    return a


def gen_frame(rng):
    import numpy as np
    import pandas as pd
    rows = rng.choice([0, 1, 2, 5])
    ncols = rng.choice([0, 1, 2, 4])
    cols = []
    labels = [rng.choice(['a', 'b', 'a', 1, 2.5, ('t', 1), 'é', '', None, True]) for _ in range(ncols)]
    data = []
    for c in range(ncols):
        k = rng.choice(['int', 'float', 'str', 'bool', 'cat', 'dt', 'obj', 'i8', 'f4'])
        if k == 'int':
            col = pd.Series([rng.randint(-5, 5) for _ in range(rows)], dtype='int64')
        elif k == 'i8':
            col = pd.Series([rng.randint(-5, 5) for _ in range(rows)], dtype='int8')
        elif k == 'f4':
            col = pd.Series([rng.uniform(-1, 1) for _ in range(rows)], dtype='float32')
        elif k == 'float':
            col = pd.Series([rng.choice([0.5, float('nan'), -0.0, 1e300]) for _ in range(rows)], dtype='float64')
        elif k == 'str':
            col = pd.Series([gen_str(rng) for _ in range(rows)], dtype='object')
        elif k == 'bool':
            col = pd.Series([rng.random() < 0.5 for _ in range(rows)], dtype='bool')
        elif k == 'cat':
            col = pd.Series([rng.choice(['x', 'y', 'z']) for _ in range(rows)]).astype('category')
        elif k == 'dt':
            col = pd.Series(pd.to_datetime([rng.choice(['2020-01-01', '1999-12-31 23:59:59.123456', None]) for _ in range(rows)], format='mixed'))
        else:
            col = pd.Series([rng.choice([None, 1, 'a', 2.5, [1, 2], {'k': 1}]) for _ in range(rows)], dtype='object')
        data.append(col)
    ik = rng.choice(['range', 'str', 'multi', 'dup', 'dt', 'float'])
    if rows == 0 and ik in ('multi', 'dup'):
        ik = 'str'
    if ik == 'range':
        index = pd.RangeIndex(rows)
    elif ik == 'str':
        index = pd.Index([gen_str(rng) + str(i) for i in range(rows)], name=rng.choice([None, 'idx', 3]))
    elif ik == 'multi':
        index = pd.MultiIndex.from_tuples([(rng.choice(['p', 'q']), i) for i in range(rows)], names=rng.choice([[None, None], ['l0', 'l1']]))
    elif ik == 'dup':
        index = pd.Index([rng.choice([0, 1]) for _ in range(rows)])
    elif ik == 'dt':
        index = pd.date_range('2021-01-01', periods=rows, freq='D')
    else:
        index = pd.Index([i + 0.5 for i in range(rows)])
    df = pd.DataFrame({i: c.values for i, c in enumerate(data)}, index=index) if ncols else pd.DataFrame(index=index)
    if ncols:
        df.columns = pd.Index(labels, dtype='object') if rng.random() < 0.8 else pd.MultiIndex.from_tuples([('g', i) for i in range(ncols)])
        for i, c in enumerate(data):
            df.isetitem(i, c.values if not hasattr(c, 'cat') or c.dtype.name != 'category' else pd.Categorical(c))
    if rng.random() < 0.3 and ncols:
        s = df.iloc[:, 0]
        s.name = rng.choice([None, 'nm', 7, ('a', 'b')])
        return s
    return df


def gen_items(rng):
    if rng.random() < 0.06:
        # long sequences around round sizes (writers that buffer / batch rows)
        n = rng.choice([255, 256, 999, 1000, 1001, 1024, 2000, 2049, 4097])
        kind = rng.choice(['int', 'str', 'dict', 'mixed'])
        mk = {'int': lambda i: i, 'str': lambda i: f's{i}', 'dict': lambda i: {'i': i}, 'mixed': lambda i: [i, {'k': str(i)}, None][i % 3]}[kind]
        return [mk(i) for i in range(n)]
    n = rng.choice([0, 0, 1, 2, 5, 30, 300])
    return [gen_json(rng, 0, rng.choice([0, 1, 3])) for _ in range(n)]


def type_morph(v):
    """a value that python considers == v but whose element types differ (1 -> 1.0, True -> 1, 2.0 -> 2); None if v has nothing to morph"""
    changed = [False]

    def go(x):
        if isinstance(x, bool):
            changed[0] = True
            return int(x)
        if isinstance(x, int) and abs(x) < 2 ** 53:
            changed[0] = True
            return float(x)
        if isinstance(x, float) and x == x and abs(x) < 2 ** 53 and x == int(x) and not (x == 0 and str(x).startswith('-')):
            changed[0] = True
            return int(x)
        if isinstance(x, list):
            return [go(y) for y in x]
        if isinstance(x, dict):
            return {k: go(y) for k, y in x.items()}
        return x
    out = go(v)
    return out if changed[0] and out == v else None


class _Unstorable:
    """neither JSON nor pickle can write it"""

    def __reduce__(self):
        raise TypeError('cannot be stored')


def poisoned(rng, kind, v):
    """a value of the same task whose storing fails part-way, after MORE has been written than the final value holds; None = not built for this kind"""
    if kind == 'listnp':
        return list(v) + [gen_array(rng, allow_big=False) for _ in range(rng.randint(1, 4))] + [_Unstorable()]
    if kind in ('generated', 'lazy'):
        return list(v) + [{'extra': i} for i in range(rng.randint(1, 4))] + [_Unstorable()]
    if kind == 'json' and isinstance(v, dict):
        return {**v, 'zz_extra': list(range(50)), 'zz_poison': _Unstorable()}
    if kind == 'json' and isinstance(v, list):
        return list(v) + list(range(50)) + [_Unstorable()]
    return None


def gen_tree(rng):
    files = {}
    for _ in range(rng.choice([0, 1, 2, 5])):
        parts = [rng.choice(['a', 'b', 'sub', 'é', 'x.y', ' sp']) for _ in range(rng.randint(1, 3))]
        name = '/'.join(parts) + rng.choice(['', '.bin', '.txt'])
        if any(name.startswith(f + '/') or f.startswith(name + '/') or f == name for f in files):
            continue
        files[name] = bytes(rng.randrange(256) for _ in range(rng.choice([0, 1, 10, 1000])))
    return files


def gen_value(rng, kind):
    if kind == 'json':
        return gen_json_top(rng)
    if kind == 'numpy':
        return gen_array(rng)
    if kind == 'pandas':
        return gen_frame(rng)
    if kind in ('generated', 'lazy'):
        return gen_items(rng)
    if kind == 'listnp' and rng.random() < 0.25:
        # arrays of one common shape but different dtypes (a writer must not merge them into one array)
        import numpy as np
        shape = rng.choice([(3,), (2, 2), (1,), (4, 1)])
        n = int(np.prod(shape))
        out = []
        for dt in rng.sample(['bool', 'int64', 'float32', 'uint8', '<U2', 'float64', 'int8', 'complex64', '<U9'], rng.randint(2, 5)):
            if dt.startswith('<U'):
                out.append(np.array([rng.choice(['a', 'bc', 'é']) for _ in range(n)], dtype=dt).reshape(shape))
            else:
                out.append(np.array([rng.randrange(0, 2) for _ in range(n)]).astype(dt).reshape(shape))
        return out
    if kind == 'listnp':
        return [gen_array(rng, allow_big=False) for _ in range(rng.choice([0, 1, 2, 3, 11, 12, 25, 30]))]
    if kind == 'dir':
        return gen_tree(rng)
    raise ValueError(kind)


def nontrivial(kind, v):
    import numpy as np
    if kind == 'json':
        if isinstance(v, (list, dict)):
            return any(isinstance(x, (list, dict)) for x in (v.values() if isinstance(v, dict) else v)) or len(v) > 3
        return v in BOUND_INTS[4:] or (isinstance(v, float) and v in BOUND_FLOATS[4:]) or (isinstance(v, str) and not v.isascii())
    if kind == 'numpy':
        return v.ndim >= 2 or v.dtype.str not in ('<f8', '<i8') or v.ndim == 0
    if kind == 'pandas':
        return v.shape[0] > 0
    if kind in ('generated', 'lazy'):
        return len(v) >= 2
    if kind == 'listnp':
        return len(v) >= 2
    return len(v) >= 1


MODULE_TEMPLATE = '''
import pickle, sys
from pathlib import Path
from typing import Generator
import numpy as np
import pandas as pd
from taskchain import Task
from taskchain.data import DirData, GeneratedDataLazy, ListOfNumpyData

HERE = Path(__file__).parent
RUNS = []

VALUES = None   # set by the harness in the computing process only: a run anywhere else is an error

FIRST = {{}}    # task index -> value whose storing fails part-way (a failed earlier attempt of the same task)

def _value(i):
    RUNS.append(i)
    if i in FIRST:
        return FIRST.pop(i)
    return VALUES[i]

{classes}
'''

CLASS_TEMPLATES = {
    'json': '''
class T{i}({base}):
    def run(self) -> {pytype}:
        return _value({i})
''',
    'numpy': '''
class T{i}({base}):
    def run(self) -> np.ndarray:
        return _value({i})
''',
    'pandas': '''
class T{i}({base}):
    def run(self) -> {pytype}:
        return _value({i})
''',
    'generated': '''
class T{i}({base}):
    def run(self) -> Generator:
        for item in _value({i}):
            if isinstance(item, list) and len(item) > 1:
                # an item handed out while it is still being filled; the result is the finished item
                part = item[:1]
                yield part
                part.extend(item[1:])
            elif isinstance(item, dict) and len(item) > 1:
                ks = list(item)
                part = {{ks[0]: item[ks[0]]}}
                yield part
                for k_ in ks[1:]:
                    part[k_] = item[k_]
            else:
                yield item
''',
    'lazy': '''
class T{i}({base}):
    class Meta:
        data_class = GeneratedDataLazy
    def run(self) -> {pytype}:
        v = _value({i})
        return {lazy_expr}
''',
    'listnp': '''
class T{i}({base}):
    class Meta:
        data_class = ListOfNumpyData
    def run(self) -> list:
        return _value({i})
''',
    'dir': '''
class T{i}({base}):
    def run(self) -> DirData:
        d = self.get_data_object()
        for name, content in _value({i}).items():
            p = d.dir / name
            p.parent.mkdir(parents=True, exist_ok=True)
            p.write_bytes(content)
        return d
''',
}


def pytype_of(kind, v, rng):
    import pandas as pd
    if kind == 'json':
        return {bool: 'bool', int: 'int', float: 'float', str: 'str', dict: 'dict', list: 'list'}[type(v)]
    if kind == 'pandas':
        return 'pd.Series' if isinstance(v, pd.Series) else 'pd.DataFrame'
    return ''


def observed_form(kind, value):
    """normal form in which values are compared (what the user gets out of `.value`)"""
    if kind == 'lazy':
        return list(value()) if callable(value) else list(value)
    if kind == 'dir':
        root = Path(value)
        return {str(p.relative_to(root)): p.read_bytes() for p in sorted(root.rglob('*')) if p.is_file()}
    return value


def tree_hash(root: Path):
    out = {}
    for p in sorted(root.rglob('*')):
        if p.is_file() and not p.is_symlink():
            out[str(p.relative_to(root))] = hashlib.sha256(p.read_bytes()).hexdigest()
    return out


LOADER = r'''
import json, sys, os
sys.path.insert(0, sys.argv[1]); sys.path.insert(0, sys.argv[2]); sys.path.insert(0, sys.argv[3])
os.environ.setdefault('TQDM_DISABLE', '1')
import logging
from taskchain import Config
from tc_verif.canon import tcanon
from tc_verif.props.c06 import observed_form
import c06mod
kinds = json.loads(sys.argv[4])
from pathlib import Path
chain = Config(Path(sys.argv[5]), name=sys.argv[6], data={'tasks': ['c06mod.*']}).chain(parameter_mode=(sys.argv[7] == '1'))
out = {}
for i, kind in enumerate(kinds):
    t = chain[f't{i}']
    try:
        if not t.has_data:
            out[i] = ['nodata']
            continue
        out[i] = ['ok', tcanon(observed_form(kind, t.value))]
    except Exception as e:
        out[i] = ['exc', type(e).__name__ + ': ' + str(e)[:200]]
out['runs'] = list(c06mod.RUNS)
print('RESULT' + json.dumps(out))
'''


def run_case(case) -> CaseResult:
    res = CaseResult()
    rng = random.Random(case['seed'])
    kinds = [rng.choice(case['kinds']) for _ in range(case['n'])]
    values = [gen_value(rng, k) for k in kinds]
    tmp = Path(tempfile.mkdtemp(prefix='c06-'))
    moddir = tmp / 'mod'
    moddir.mkdir()
    # (directory names that mean something to glob / shells / format strings are ordinary names)
    data_dir = tmp / rng.choice(['data', 'data', 'runs[2026]', 'a b', 'dätä', 'x*y', 'q?', '{curly}', 'per%cent'])
    lazy_forms = [rng.choice(['list', 'callable', 'generator']) for _ in kinds]
    classes = []
    for i, (k, v) in enumerate(zip(kinds, values)):
        lazy_expr = {'list': 'v', 'callable': '(lambda: iter(v))', 'generator': '(x for x in v)'}[lazy_forms[i]]
        pt = pytype_of(k, v, rng)
        if k == 'lazy':
            pt = {'list': 'list', 'callable': 'object', 'generator': 'Generator'}[lazy_forms[i]]
        # now and then a task class DERIVED from an earlier task class that stores another kind of value (the subclass declares its own return type)
        base = 'Task'
        earlier = [j for j in range(i) if kinds[j] != k and kinds[j] in ('json', 'numpy', 'pandas') and k in ('json', 'numpy', 'pandas', 'generated')]
        if earlier and rng.random() < 0.15:
            base = f'T{rng.choice(earlier)}'
            res.count('task_classes_derived_from_a_task_of_another_kind')
        classes.append(CLASS_TEMPLATES[k].format(i=i, pytype=pt, lazy_expr=lazy_expr, base=base))
    (moddir / 'c06mod.py').write_text(MODULE_TEMPLATE.format(classes=''.join(classes)))
    sys.path.insert(0, str(moddir))
    sys.modules.pop('c06mod', None)
    try:
        from taskchain import Config
        import c06mod
        c06mod.VALUES = values
        cfg_name, pmode = 'c06', True
        sib_name = 'exp.v2'
        if case.get('name_mode'):
            # results addressed by the config name; a sibling configuration whose name differs by a suffix (`exp.v1`/`exp.v2`, `model`/`model_old`,
            # `model_old`/`model`, `model`/`model_v2`, `model`/`model.old`) has stored OTHER values of the same tasks before
            cfg_name, sib_name = rng.choice([('exp.v1', 'exp.v2'), ('model', 'model_old'), ('model_old', 'model'), ('model', 'model_v2'), ('model', 'model.old'),
                                             ('model', 'model_old')])
            pmode = False
            res.count('name_mode_cases')
            if cfg_name != 'exp.v1':
                res.count('name_mode_sibling_names_differing_by_a_suffix')

        def mkchain(name=None):
            return Config(data_dir, name=name or cfg_name, data={'tasks': ['c06mod.*']}).chain(parameter_mode=pmode)
        if case.get('name_mode'):
            rng2 = random.Random(case['seed'] + 1)
            sib_values = [gen_value(rng2, k) for k in kinds]
            c06mod.VALUES = sib_values
            sib = mkchain(sib_name)
            sib_ok = []
            for i in range(len(kinds)):
                try:
                    sib[f't{i}'].value
                    sib_ok.append(i)
                except Exception:
                    pass
            c06mod.VALUES = values
            c06mod.RUNS.clear()
            # nothing is stored for THIS configuration yet, whatever its sibling has stored
            probe = mkchain()
            for i in range(len(kinds)):
                try:
                    if probe[f't{i}'].has_data:
                        res.violate(f'{kinds[i]}: config `{cfg_name}` reports a stored result although only its sibling `{sib_name}` has computed anything',
                                    witness={'kind': kinds[i], 'index': i, 'seed': case['seed'], 'configs': [cfg_name, sib_name]})
                except Exception as e:
                    res.violate(f'{kinds[i]}: has_data of config `{cfg_name}` raised {type(e).__name__}: {e}', witness={'kind': kinds[i], 'index': i, 'seed': case['seed']})
            del probe
        # a failed earlier attempt of some tasks: the result could not be stored completely; the retry returns the (smaller) final value
        first = {}
        for i, (k, v) in enumerate(zip(kinds, values)):
            if rng.random() < case.get('failed_first', 0.0):
                pv = poisoned(rng, k, v)
                if pv is not None:
                    first[i] = pv
        if first:
            c06mod.FIRST = dict(first)
            chain0 = mkchain()
            for i in first:
                try:
                    chain0[f't{i}'].value
                    res.count('poisoned_attempts_that_did_not_fail')
                    values[i] = first[i]
                    res.inconclusive.append(f'{kinds[i]}: the poisoned first attempt did not fail')
                except Exception:
                    res.count('failed_first_attempts')
            c06mod.FIRST = {}
            c06mod.RUNS.clear()
        chain1 = mkchain()
        canon_run = []
        ok_idx = []
        for i, (k, v) in enumerate(zip(kinds, values)):
            res.count('values')
            res.count({'json': 'json_values', 'numpy': 'numpy_values', 'pandas': 'pandas_values', 'generated': 'generated_values',
                       'lazy': 'lazy_values', 'listnp': 'listnp_values', 'dir': 'dir_values'}[k])
            wit = {'kind': k, 'value': short(v, 600), 'index': i, 'seed': case['seed']}
            want = tcanon(v)
            canon_run.append(want)
            if k == 'json' and not v and v is not None:
                res.count('falsy_top_level')
            if k == 'numpy' and v.ndim == 0:
                res.count('zero_d_arrays')
            if k == 'listnp' and len(v) > 10:
                res.count('lists_over_10_arrays')
            if k in ('generated', 'lazy') and len(v) > 200:
                res.count('long_sequences')
            try:
                got1 = observed_form(k, chain1[f't{i}'].value)
            except Exception as e:
                res.violate(f'{k}: computing chain raised {type(e).__name__}: {e} for in-domain value {short(v, 300)}', witness=wit)
                continue
            if tcanon(got1) != want:
                res.violate(f'{k}: value returned by the computing chain {short(got1, 300)} differs from what run returned {short(v, 300)}', witness=wit)
                continue
            ok_idx.append(i)
            if nontrivial(k, v):
                res.nt(jhash([k, want]))
        # forced recomputation over an existing result that returns an equal value of other element types: the stored result is replaced
        for i in list(ok_idx):
            if kinds[i] in ('json', 'generated', 'lazy') and rng.random() < case.get('force_morph', 0.0):
                if kinds[i] == 'json' and not isinstance(values[i], (list, dict)):
                    continue        # the declared return type of a scalar task would change
                mv = type_morph(values[i])
                if mv is None:
                    continue
                values[i] = mv
                wit = {'kind': kinds[i], 'value': short(mv, 600), 'index': i, 'seed': case['seed'], 'forced_with_equal_value_of_other_types': True}
                try:
                    t = chain1[f't{i}']
                    t.force()
                    gotf = observed_form(kinds[i], t.value)
                except Exception as e:
                    res.violate(f'{kinds[i]}: forced recomputation raised {type(e).__name__}: {e}', witness=wit)
                    ok_idx.remove(i)
                    continue
                canon_run[i] = tcanon(mv)
                res.count('forced_type_morphs')
                if tcanon(gotf) != canon_run[i]:
                    res.violate(f'{kinds[i]}: forced recomputation returned {short(gotf, 300)} but run returned {short(mv, 300)}', witness=wit)
                    ok_idx.remove(i)
        # forced recomputation of collection-like results between empty and non-empty (an empty result is a result like any other)
        for i in list(ok_idx):
            k = kinds[i]
            if k not in ('listnp', 'dir', 'generated') or rng.random() > 0.5:
                continue
            was_empty = len(values[i]) == 0
            nv = None
            for _ in range(8):
                cand = gen_value(rng, k)
                if (len(cand) == 0) != was_empty:
                    nv = cand
                    break
            if nv is None and not was_empty:
                nv = type(values[i])()
            if nv is None:
                continue
            values[i] = nv
            wit = {'kind': k, 'value': short(nv, 600), 'index': i, 'seed': case['seed'], 'forced_from': 'empty' if was_empty else 'non-empty'}
            try:
                t = chain1[f't{i}']
                t.force()
                gotf = observed_form(k, t.value)
            except Exception as e:
                res.violate(f'{k}: forced recomputation ({"empty -> non-empty" if was_empty else "non-empty -> empty"}) raised {type(e).__name__}: {e}', witness=wit)
                ok_idx.remove(i)
                continue
            canon_run[i] = tcanon(nv)
            res.count('forced_between_empty_and_non_empty')
            if tcanon(gotf) != canon_run[i]:
                res.violate(f'{k}: forced recomputation ({"empty -> non-empty" if was_empty else "non-empty -> empty"}) returned {short(gotf, 300)} but run returned {short(nv, 300)}', witness=wit)
                ok_idx.remove(i)
        c06mod.VALUES = None                    # from here on any run is an error (the loader must load)
        before = tree_hash(data_dir)
        chain2 = mkchain()
        nruns = len(c06mod.RUNS)
        mutated_json = []
        for i in ok_idx:
            k, v = kinds[i], values[i]
            wit = {'kind': k, 'value': short(v, 600), 'index': i, 'seed': case['seed']}
            t = chain2[f't{i}']
            try:
                if not t.has_data:
                    res.violate(f'{k}: a fresh chain reports no data for the stored value {short(v, 300)}', witness=wit)
                    continue
                got2 = observed_form(k, t.value)
            except Exception as e:
                res.violate(f'{k}: loading in a fresh chain raised {type(e).__name__}: {str(e)[:300]} for {short(v, 300)}', witness=wit)
                continue
            res.count('fresh_chain_loads')
            if tcanon(got2) != canon_run[i]:
                res.violate(f'{k}: fresh chain loaded {short(got2, 400)} but run returned {short(v, 400)}', witness=wit)
            elif k in ('numpy', 'listnp'):
                # a consumer works on the loaded arrays in place: that is its own copy, the stored result must not follow
                import numpy as np
                for arr in ([got2] if k == 'numpy' else list(got2)):
                    try:
                        if isinstance(arr, np.ndarray) and arr.size and arr.dtype.kind in 'iufcb':
                            arr[...] = 1
                            res.count('loaded_arrays_mutated_in_place')
                            if hasattr(arr, 'flush'):
                                arr.flush()
                    except (ValueError, TypeError):
                        res.count('loaded_arrays_read_only')
            elif k in ('json', 'generated') and isinstance(got2, (list, dict)):
                # ... and on loaded lists / mappings
                try:
                    if isinstance(got2, list):
                        got2.append('MUTATED')
                        got2.reverse()
                    else:
                        got2['MUTATED'] = 1
                    mutated_json.append(i)
                    res.count('loaded_json_values_mutated_in_place')
                except Exception:
                    pass
        # a third chain of the same process loads again: what consumers did to THEIR loaded values must not be visible
        if mutated_json:
            chain3 = mkchain()
            for i in mutated_json:
                k, v = kinds[i], values[i]
                wit = {'kind': k, 'value': short(v, 600), 'index': i, 'seed': case['seed']}
                try:
                    got3 = observed_form(k, chain3[f't{i}'].value)
                except Exception as e:
                    res.violate(f'{k}: loading in a third chain raised {type(e).__name__}: {str(e)[:200]}', witness=wit)
                    continue
                if tcanon(got3) != canon_run[i]:
                    res.violate(f'{k}: a later chain of the same process loaded {short(got3, 300)} after a consumer had modified ITS loaded copy in place; run returned '
                                f'{short(v, 300)}', witness=wit)
        if case.get('name_mode') and not res.violations:
            # readable links asked under the sibling's name (refused or not: a link never takes the place of a stored result)
            try:
                chain2.create_readable_filenames(name=sib_name)
            except Exception:
                res.count('readable_names_refused_over_existing_results')
            before = tree_hash(data_dir)
            # ... and the sibling's results are still its own
            sibc = mkchain(sib_name)
            for i in sib_ok:
                k = kinds[i]
                wit = {'kind': k, 'index': i, 'seed': case['seed'], 'configs': [cfg_name, sib_name]}
                try:
                    if not sibc[f't{i}'].has_data:
                        res.violate(f'{k}: the result that config `{sib_name}` had stored is gone after config `{cfg_name}` computed its own', witness=wit)
                        continue
                    gots = observed_form(k, sibc[f't{i}'].value)
                except Exception as e:
                    res.violate(f'{k}: loading the result of config `{sib_name}` after config `{cfg_name}` computed its own raised {type(e).__name__}: {str(e)[:200]}', witness=wit)
                    continue
                res.count('sibling_results_rechecked')
                if tcanon(gots) != tcanon(sib_values[i]):
                    res.violate(f'{k}: config `{sib_name}` now loads {short(gots, 300)}, its run had returned {short(sib_values[i], 300)} (config `{cfg_name}` computed in between)', witness=wit)
        after = tree_hash(data_dir)
        res.count('file_hash_checks', len(before))
        if before != after:
            diff = sorted(set(before.items()) ^ set(after.items()))[:4]
            res.violate(f'loading changed stored files: {diff}', witness={'seed': case['seed']})
        if case.get('fresh_process') and ok_idx and not res.violations:
            env = dict(os.environ)
            r = subprocess.run([sys.executable, '-c', LOADER, str(moddir), str(Path(__file__).resolve().parents[2]), str(REPO / 'src'),
                                json.dumps(kinds), str(data_dir), cfg_name, '1' if pmode else '0'], capture_output=True, text=True, timeout=300, env=env)
            line = [l for l in r.stdout.splitlines() if l.startswith('RESULT')]
            if not line:
                res.inconclusive.append(f'fresh-process loader failed: {r.stderr[-400:]}')
            else:
                out = json.loads(line[0][6:])
                if out.get('runs'):
                    res.violate(f'fresh interpreter executed run for tasks {out["runs"]} although results are stored', witness={'seed': case['seed']})
                for i in ok_idx:
                    o = out[str(i)]
                    wit = {'kind': kinds[i], 'value': short(values[i], 600), 'index': i, 'seed': case['seed']}
                    if o[0] != 'ok':
                        res.violate(f'{kinds[i]}: fresh interpreter: {o} for stored value {short(values[i], 300)}', witness=wit)
                    elif o[1] != json.loads(json.dumps(canon_run[i])):
                        res.violate(f'{kinds[i]}: fresh interpreter loaded a different value than run returned: {short(values[i], 300)}', witness=wit)
                    else:
                        res.count('fresh_process_loads')
                if tree_hash(data_dir) != after:
                    res.violate('loading in a fresh interpreter changed stored files', witness={'seed': case['seed']})
        res.sample = {'kinds': kinds[:6], 'values': [short(v, 100) for v in values[:6]]}
    finally:
        sys.path.remove(str(moddir))
        sys.modules.pop('c06mod', None)
        shutil.rmtree(tmp, ignore_errors=True)
    return res


ALL_KINDS = ['json', 'json', 'numpy', 'numpy', 'pandas', 'generated', 'lazy', 'listnp', 'dir']


def cases(tier, seed):
    rng = random.Random(f'c06-{seed}')
    n = 160 if tier == 'quick' else 6000
    for i in range(n):
        yield {'n': 30, 'seed': rng.randrange(1 << 30), 'kinds': ALL_KINDS, 'fresh_process': i % (5 if tier == 'quick' else 3) == 0,
               'failed_first': 0.25 if i % 2 else 0.0, 'force_morph': 0.3 if i % 3 == 0 else 0.0, 'name_mode': i % 7 == 3}
