"""C18 — run records describe the run that produced the stored result."""
from __future__ import annotations

import random

from ..core import CaseResult
from .c01 import run_history_case

LEVEL = 'exploration'
RULE = ('case = history (1-3 real processes x 2-3 chains on one data directory, several chains with same-named tasks alive in one process) '
        'mixing successful runs, failing runs (raise before/after logging, failing generator bodies), retries on the same object and in new chains, '
        'forced recomputations, with run_info/log inspections interleaved. Every generated run emits log messages and run-info records that '
        'carry a unique per-run id. oracle: after a successful run, run_info of the location names the task (name/class/module), the frozen '
        'representation of every persisted parameter the run used, the storage key of every input, the declaring config/namespace, and exactly '
        'the records of the LATEST successful run in order; the log holds exactly the messages of that run, once, in order. non-trivial = '
        'history with >=1 failed run followed by a retry, or >=1 forced recomputation, before an inspection; distinct = hash(files, roots, sessions)')
REQUIRED = ['histories', 'run_infos_checked', 'logs_checked', 'faulted_requests', 'force_steps', 'runs_observed']
ASSUMPTIONS = ['the library\'s own log lines, timestamps, user name and extra run-info keys are not checked',
               'values of persistence-excluded parameters and config/namespace of tasks that are one shared object are not checked']
BUDGET = {'quick': 75, 'thorough': 1500}
WANT = {'C18', 'C08'}
OPTS = {'max_sessions': 3, 'max_chains': 3, 'max_requests': 7, 'p_inspect': 0.3, 'p_force': 0.12, 'p_fault': 0.15, 'p_spawn': 0.05,
        'inspect_kinds': ['run_info', 'run_info', 'log'], 'inspect_after_run': 0.6}


def run_case(case) -> CaseResult:
    res = CaseResult()
    rng = random.Random(case['seed'])
    for i in range(case['n']):
        run_history_case(rng, res, WANT, OPTS, feat={'meta_inheritance_p': 0.4}, name_mode=rng.random() < 0.2)      # (name mode: records live beside results named after configs)
        if len(res.violations) > 3:
            break
    return res


def cases(tier, seed):
    rng = random.Random(f'c18-{seed}')
    n = 140 if tier == 'quick' else 5000
    for i in range(n):
        yield {'n': 2, 'seed': rng.randrange(1 << 30)}
