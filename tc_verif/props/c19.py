"""C19 — test helpers compute what the real chain computes."""
from __future__ import annotations

import random

from .. import refscheme
from ..core import CaseResult, jhash
from ..lab import spec as S
from ..lab.harness import Lab, session_problem
from ..lab.ref import Ref

LEVEL = 'exploration'
RULE = ('case = generated pipeline built as a real chain in a worker process; for random tasks T the helper (create_test_task or TestChain) is given T\'s '
        'class, mock values for its inputs (keyed by class or by declared name; the real upstream values, or arbitrary values incl. None, falsy, nested, '
        'callables and classes) and T\'s parameter values (by name_in_config; defaults spelled out or omitted; parameter objects as instances or as '
        'definitions incl. ChainObject parameter objects); oracle: helper value digest == value of T in the real chain == value recomputed from the supplied '
        'values by the harness; invocation log: only T ran (once), no mocked class; files only under T\'s own directory of a fresh base dir; leaving out '
        'a required input mock or a required parameter must fail at helper construction. non-trivial = T has >=1 input and >=1 parameter; '
        'distinct = hash(task spec, helper options)')
REQUIRED = ['helpers', 'compared_with_real_chain', 'arbitrary_mock_values', 'missing_input_reported', 'missing_param_reported', 'test_chain_used',
            'objects_as_definitions', 'mocks_by_class', 'mocks_by_name', 'mocked_tasks_also_listed', 'mocked_tasks_forced_with_recompute',
            'helpers_evaluated_after_a_second_instance_was_built', 'results_read_again_after_the_test_chain_was_dropped']
ASSUMPTIONS = ['every helper gets a fresh base dir (re-using one base dir for helpers with other parameters is outside the statement)',
               'global_vars/placeholders are not used here (the helpers have no global_vars argument)']
BUDGET = {'quick': 60, 'thorough': 1200}
FEAT = {'global_vars': False, 'contexts': True, 'chain_objects': True, 'objects': True, 'patterns': False}
ARBITRARY = [None, 0, '', [], {}, False, {'nested': [1, {'k': None}]}, 'text', 3.5, '__callable__', '__class__', [None], '__identity__', '__lock__']


def run_one(rng, res: CaseResult):
    spec = S.gen_spec(rng, FEAT)
    root = S.gen_root(rng, spec, FEAT)
    root.pop('global_vars', None)
    ref = Ref(spec, root)
    if ref.error is not None or not ref.tasks:
        res.count('generator_rejects')
        return
    names = list(ref.tasks)
    rng.shuffle(names)
    steps = [{'op': 'build', 'chain': 'c', 'root': root}]
    plans = []
    for n in names[:4]:
        t = ref.tasks[n]
        ts = t['spec']
        expl = [x for x in ts['inputs'] if x['form'] not in ('pattern', 'pattern_all')]
        st = {'op': 'helper', 'chain': 'c', 'task': n, 'use_test_chain': rng.random() < 0.4, 'omit_defaults': rng.random() < 0.5,
              'objects_as_definitions': rng.random() < 0.5, 'mock_by_class': rng.random() < 0.7, 'explicit_base_dir': rng.random() < 0.5}
        if st['use_test_chain'] and rng.random() < 0.5:
            st['also_listed'] = rng.randrange(1, 9)
        if st['use_test_chain'] and rng.random() < 0.4:
            st['force_mock'] = True
        if rng.random() < 0.35:
            st['decoy'] = rng.choice(['helper', 'and_real_chain'])
            st['real_root'] = root
        if st['use_test_chain'] and not st.get('force_mock') and rng.random() < 0.5:
            st['drop_chain'] = True          # (not after forcing: a forced task is computed again whenever it is asked)
        mode = rng.random()
        expect_fail = None
        if mode < 0.25:
            st['arbitrary_values'] = [rng.choice(ARBITRARY) for _ in range(3)]
            st['compare_real'] = False
        elif mode < 0.37 and expl:
            i = rng.randrange(len(expl))
            if t['explicit'][i][0] == 'task':
                st['skip_mock'] = i
                if not expl[i].get('optional'):
                    expect_fail = 'input'
        elif mode < 0.5:
            req = [p for p in ts['params'] if 'default' not in p]
            if req:
                p = rng.choice(req)
                st['drop_params'] = [p.get('name_in_config') or p['name']]
                expect_fail = 'param'
        steps.append(st)
        plans.append((n, st, expect_fail))
    with Lab(spec) as lab:
        r = lab.run(steps)
        prob = session_problem(r)
        if prob:
            res.inconclusive.append(prob)
            return
    obs = r['steps']
    if not obs[0]['ok']:
        return
    witness = {'spec': spec, 'root': root, 'steps': [{k: v for k, v in s_.items() if k not in ('root', 'real_root')} for s_ in steps[1:]]}
    for (n, st, expect_fail), o in zip(plans, obs[1:]):
        t = ref.tasks[n]
        here = f'helper for {n} ({"TestChain" if st["use_test_chain"] else "create_test_task"}, options {[k for k in st if st[k] is True]})'
        if not o['ok']:
            # failure while preparing real values (not the helper): not judged here
            res.count('real_chain_trouble_not_judged')
            continue
        res.count('helpers')
        if st['use_test_chain']:
            res.count('test_chain_used')
        if st['objects_as_definitions']:
            res.count('objects_as_definitions')
        res.count('mocks_by_class' if st['mock_by_class'] else 'mocks_by_name')
        if o.get('also_listed'):
            res.count('mocked_tasks_also_listed')
        if expect_fail:
            if o.get('constructed'):
                res.violate(f'{here}: a required {"input task" if expect_fail == "input" else "parameter"} was not supplied but the helper was constructed '
                            f'(and returned {"a value" if "helper_vdigest" in o else o.get("helper_exc")})', witness=witness, facts={'tag': 'missing_not_reported'})
            else:
                res.count('missing_input_reported' if expect_fail == 'input' else 'missing_param_reported')
            continue
        if not o.get('constructed'):
            res.violate(f'{here}: construction failed although every input and parameter was supplied: {o.get("construct_exc")}', witness=witness,
                        facts={'tag': 'construction_failed'})
            continue
        if 'helper_exc' in o:
            res.violate(f'{here}: requesting the value failed: {o["helper_exc"]}', witness=witness, facts={'tag': 'value_failed'})
            continue
        if st.get('arbitrary_values') is not None:
            res.count('arbitrary_mock_values')
        if o['helper_vdigest'] != o['expected_vdigest']:
            res.violate(f'{here}: value differs from what the task computes from the supplied parameter values and input values '
                        f'(digest {o["helper_vdigest"]}, expected {o["expected_vdigest"]})', witness=witness, facts={'tag': 'value_vs_supplied'})
            continue
        if st.get('compare_real', True) and 'skip_mock' not in st:
            res.count('compared_with_real_chain')
            if o['helper_vdigest'] != o['real_vdigest'] or o['real_vdigest'] != t['vdigest']:
                res.violate(f'{here}: value differs from the value of the same task in the real chain (helper {o["helper_vdigest"]}, real chain {o["real_vdigest"]}, '
                            f'reference {t["vdigest"]})', witness=witness, facts={'tag': 'value_vs_real'})
                continue
        if 'force_mock_exc' in o:
            res.violate(f'{here}: force(<mocked task>, recompute=True) on the helper chain failed: {o["force_mock_exc"]}', witness=witness, facts={'tag': 'force_mock_failed'})
            continue
        if 'force_mock_vdigest' in o:
            res.count('mocked_tasks_forced_with_recompute')
            if o['force_mock_vdigest'] != o['expected_vdigest']:
                res.violate(f'{here}: after forcing a mocked task the tested task yields another value', witness=witness, facts={'tag': 'value_after_force_mock'})
                continue
        if o.get('decoy_built'):
            res.count('helpers_evaluated_after_a_second_instance_was_built')
        ad = o.get('after_drop')
        if ad is not None:
            res.count('results_read_again_after_the_test_chain_was_dropped')
            if 'exc' in ad:
                res.violate(f'{here}: after the TestChain object went out of scope, reading the task\'s value again failed: {ad["exc"]}', witness=witness, facts={'tag': 'after_drop'})
            elif ad['vdigest'] != o['expected_vdigest']:
                res.violate(f'{here}: after the TestChain object went out of scope the task yields another value', witness=witness, facts={'tag': 'after_drop'})
            elif ad['had_data'] and ad['new_runs']:
                res.violate(f'{here}: the task had stored its result, but after the TestChain object went out of scope reading it again executed run '
                            f'{ad["new_runs"]} more time(s): the stored result was lost with the chain object', witness=witness, facts={'tag': 'after_drop'})
        ran = [x for x in o['helper_runs'][:o.get('n_records_after_value', len(o['helper_runs']))] if x['phase'] == 'start']
        own = [x for x in ran if x['cls'] == t['spec']['cls']]
        foreign = [x['cls'] for x in ran if x['cls'] != t['spec']['cls']]
        if foreign:
            res.violate(f'{here}: mocked tasks were run: {foreign}', witness=witness, facts={'tag': 'mock_ran'})
        if len(own) != 1:
            res.violate(f'{here}: the tested task ran {len(own)} times for one value request', witness=witness, facts={'tag': 'runs'})
        tdir = refscheme.rel_dir(t['slug']) + '/'
        stray = [f for f in o.get('helper_files', []) if not f.startswith(tdir)]
        if stray:
            res.violate(f'{here}: files outside the tested task\'s directory were written (mocked tasks persisted?): {stray[:4]}', witness=witness,
                        facts={'tag': 'mock_persisted'})
        if t['inputs'] and t['spec']['params']:
            res.nt(jhash([t['spec'], {k: v for k, v in st.items() if k not in ('chain',)}]))
    if res.sample is None:
        res.sample = {'root': root, 'helpers': witness['steps'][:3]}


def run_case(case) -> CaseResult:
    res = CaseResult()
    rng = random.Random(case['seed'])
    for i in range(case['n']):
        run_one(rng, res)
        if len(res.violations) > 3:
            break
    return res


def cases(tier, seed):
    rng = random.Random(f'c19-{seed}')
    n = 150 if tier == 'quick' else 5000
    for i in range(n):
        yield {'n': 4, 'seed': rng.randrange(1 << 30)}
