"""C04 — each computation runs at most once, and only on demand."""
from __future__ import annotations

import random

from ..core import CaseResult
from .c01 import run_history_case

LEVEL = 'exploration'
RULE = ('case = history without forcing/failure/deletion: 1-4 sessions (real processes) x 2-4 chains (same and related configs) over one data '
        'directory, value requests on ARBITRARY tasks (not only sinks) in arbitrary order, inspection calls (tasks_df, has_data, data_path, run_info, '
        'log, repr, readable links, required/dependent tasks) interleaved everywhere. Every generated run appends a record to an invocation log. '
        'oracle = store/memory model (per observed task-object identity: in-memory flag; per location: stored flag; a stored result is loaded '
        'without touching upstream; in-memory data classes run once per object): the multiset of (task, key) runs of EVERY step must equal the '
        'prediction; has_data must equal the stored flag; construction/inspection steps predict zero runs; over the whole history runs per location <= 1. '
        'non-trivial = history in which some value was served by load while an upstream result was missing, or served to another process; '
        'distinct = hash(spec files, roots, sessions)')
REQUIRED = ['chains_on_shared_registry', 'name_mode_histories', 'histories', 'values_observed', 'runs_observed', 'inspections', 'prov_loaded', 'prov_in_memory', 'prov_loaded_other_process',
            'loads_with_missing_upstream', 'locations_run_once_checked']
ASSUMPTIONS = ['sequential histories (concurrent processes computing the same task are outside the statement)',
               'which inputs a generated run reads is fixed by its spec (all declared inputs, or all but one that is read from the registry only under a condition that does not hold)']
BUDGET = {'quick': 75, 'thorough': 1500}
WANT = {'C04', 'C08'}
OPTS = {'max_sessions': 4, 'max_chains': 4, 'max_requests': 6, 'p_inspect': 0.3, 'p_force': 0.0, 'p_reset': 0.06, 'p_fault': 0.0, 'p_spawn': 0.1, 'p_shared_registry': 0.2}


def run_case(case) -> CaseResult:
    res = CaseResult()
    rng = random.Random(case['seed'])
    for i in range(case['n']):
        run_history_case(rng, res, WANT, OPTS, feat={'partial_reads': True}, at_most_once=True, name_mode=rng.random() < 0.2)
        if len(res.violations) > 3:
            break
    return res


def cases(tier, seed):
    rng = random.Random(f'c04-{seed}')
    n = 140 if tier == 'quick' else 5000
    for i in range(n):
        yield {'n': 2, 'seed': rng.randrange(1 << 30)}
