"""C20 — migration to parameter mode carries every result over unchanged."""
from __future__ import annotations

import copy
import random

from ..core import CaseResult, jhash
from ..lab import spec as S
from ..lab.harness import Lab, session_problem
from ..lab.ref import Ref

LEVEL = 'exploration'
RULE = ('case = file-based generated pipeline (JSON/YAML, uses with and without namespaces, multi-config files addressed with and without an explicit part, '
        'contexts, global_vars, config names with dots, all file and directory data classes incl. legitimately empty results) computed in NAME mode for a random '
        'subset of tasks in one process; then, in further processes: migrate(dry=True), migrate(dry=False), migrate again, and a parameter-mode chain of the same '
        'config on the target directory. oracle: dry run creates no file in the target; after the real migration has_data of the parameter-mode chain == has_data in '
        'name mode for every persisting task, requesting a migrated value runs nothing and returns the reference value, non-migrated tasks are computed normally; '
        'content hashes of all regular files of the source tree are unchanged; the second migration changes no file of the target. non-trivial = >=1 migrated '
        'directory-type or empty result and >=1 task left uncomputed; distinct = hash(files, root, computed subset)')
REQUIRED = ['migrations', 'migrated_results_loaded', 'uncomputed_tasks_checked', 'dry_runs_checked', 'second_migrations_checked', 'source_trees_checked',
            'multi_config_roots', 'explicit_part_roots', 'explicitly_named_configs', 'directory_results_migrated', 'empty_results_migrated',
            'linked_directory_results_migrated', 'figure_results_migrated', 'interrupted_resumable_computations_in_source', 'intermediate_results_deleted_before_migration', 'config_object_used_for_a_chain_before_migration']
ASSUMPTIONS = ['the migration function takes no root namespace: roots without namespace only',
               'one config file is not mounted twice (name mode addresses results by config name, two mounts would share a location by design)',
               'newly created EMPTY directories in the source are ignored (inspecting a task creates its directory)']
BUDGET = {'quick': 60, 'thorough': 1200}
FEAT = {'same_file_twice': False, 'dup_module_file': False, 'set_objects': False, 'data_kinds': S.DATA_KINDS + ['dir_link', 'dir_link', 'figure', 'figure', 'continues', 'continues']}
DIR_KINDS = ('dir', 'continues', 'listnp', 'empty_dir', 'empty_listnp', 'dir_link')


def run_one(rng, res: CaseResult):
    if rng.random() < 0.15:
        # one multi-config file: a composing part mounts the other parts (same task classes, other values) under their names
        spec, proots = S.parts_spec(rng, {'composing_part': True})
        root = {'file': proots[0]['file'], 'part': 'all'}
        res.count('composing_part_roots')
    else:
        spec = S.gen_spec(rng, FEAT)
        root = S.gen_root(rng, spec, FEAT)
    root.pop('namespace', None)
    # a config name with a dot in its stem
    if rng.random() < 0.3:
        from ..lab.rewrite import _rename_file
        old = root['file']
        new = old.rsplit('.', 1)[0] + '.v2.' + old.rsplit('.', 1)[1]
        _rename_file(spec, old, new)
        root['file'] = new
    # the caller names the config explicitly (name-mode results are then stored under that name, not under the file stem)
    if rng.random() < 0.3:
        root['config_name'] = rng.choice(['kept_name', 'v1', root['file'].split('/')[-1].rsplit('.', 1)[0] + '_old'])
        res.count('explicitly_named_configs')
    ref = Ref(spec, root)                       # parameter mode reference (values, keys)
    ref_name = Ref(spec, root, parameter_mode=False)
    if ref.error is not None or not ref.tasks:
        res.count('generator_rejects')
        return
    # two instances of one file/part would share name-mode locations: reject
    seen = set()
    for (ns, file, part) in ref.instances:
        if (file, part) in seen:
            res.count('generator_rejects')
            return
        seen.add((file, part))
    names = list(ref.tasks)
    subset = [n for n in names if rng.random() < 0.6]
    conts = [n for n in names if ref.tasks[n]['spec']['data_kind'] == 'continues']
    if conts and rng.random() < 0.6:
        # keep one resumable task (and what depends on it) uncomputed: it will be started and interrupted instead
        keep_out = rng.choice(conts)
        subset = [n for n in subset if n != keep_out and keep_out not in ref.ancestors(n)]
    # computing a task computes its upstream too
    computed = set()
    for n in subset:
        computed.add(n)
        computed |= ref.ancestors(n)
    witness = {'spec': spec, 'root': root, 'computed': sorted(subset)}
    with Lab(spec) as lab:
        s1 = [{'op': 'build', 'chain': 'old', 'root': root, 'parameter_mode': False, 'data_dir_name': 'src_data'}]
        s1 += [{'op': 'value', 'chain': 'old', 'task': n, 'data_dir_name': 'src_data'} for n in subset]
        # the result of an INTERMEDIATE task was deleted on request after its dependants had been computed: the dependants keep their results
        inter = [n for n in computed if ref.tasks[n]['spec']['data_kind'] != 'memory' and any(d in computed for d in ref.descendants(n))]
        if inter and rng.random() < 0.35:
            gone = rng.choice(sorted(inter))
            s1.append({'op': 'force', 'chain': 'old', 'tasks': [gone], 'via': 'task', 'delete_data': True, 'data_dir_name': 'src_data'})
            computed.discard(gone)
            res.count('intermediate_results_deleted_before_migration')
        # a resumable (ContinuesData) task whose computation was started but not finished before the migration: its work directory with
        # the partial output is part of the source tree (and must be left alone)
        unfinished = [n for n in names if n not in computed and ref.tasks[n]['spec']['data_kind'] == 'continues']
        interrupted = None
        if unfinished and rng.random() < 0.7:
            interrupted = rng.choice(unfinished)
            s1 += [{'op': 'arm_fault', 'chain': 'old', 'task': interrupted, 'kind': 'raise_mid_dir'},
                   {'op': 'value', 'chain': 'old', 'task': interrupted, 'data_dir_name': 'src_data'}, {'op': 'disarm', 'chain': 'old'}]
            computed |= ref.ancestors(interrupted)
            res.count('interrupted_resumable_computations_in_source')
        # (has_data is asked BEFORE the interruption: the last thing that happens in the source is the interrupted run)
        hd_at = len(s1) - (3 if interrupted else 0)
        s1.insert(hd_at, {'op': 'inspect', 'chain': 'old', 'what': 'has_data', 'data_dir_name': 'src_data'})
        if interrupted:
            # upstream tasks of the interrupted one are computed by its request: ask for them first so that has_data sees them
            for a_ in sorted(ref.ancestors(interrupted)):
                s1.insert(hd_at, {'op': 'value', 'chain': 'old', 'task': a_, 'data_dir_name': 'src_data'})
            hd_at += len(ref.ancestors(interrupted))
        r1 = lab.run(s1, data_dir=lab.root / 'src_data')
        if session_problem(r1):
            res.inconclusive.append(session_problem(r1))
            return
        if not all(o['ok'] or (interrupted and o_i > hd_at) for o_i, o in enumerate(r1['steps'])):
            res.count('name_mode_trouble_not_judged')
            return
        old_has = r1['steps'][hd_at]['has_data']
        if rng.random() < 0.25:
            # a group / task directory of the source lives on another volume and is linked into the data directory
            import os
            import shutil
            # (not directories holding relative links of their own: moving those would break the links, which is the harness' doing)
            tops = [p_ for p_ in sorted((lab.root / 'src_data').iterdir()) if p_.is_dir() and not p_.is_symlink() and not any(q_.is_symlink() for q_ in p_.rglob('*'))] \
                if (lab.root / 'src_data').exists() else []
            if tops:
                t_ = rng.choice(tops)
                vol = lab.root / 'volume'
                vol.mkdir(exist_ok=True)
                shutil.move(str(t_), str(vol / t_.name))
                os.symlink(vol / t_.name, t_)
                res.count('sources_with_a_symlinked_directory')
                witness['symlinked_source_directory'] = t_.name
        src_before = lab.tree_hash('src_data')
        mig = {'op': 'migrate', 'root': root, 'target_name': 'target', 'data_dir_name': 'src_data'}
        if rng.random() < 0.4:
            mig['pre_chain'] = rng.choice(['param', 'name'])
            res.count('config_object_used_for_a_chain_before_migration')
        r2 = lab.run([dict(mig, dry=True)], data_dir=lab.root / 'src_data')
        if session_problem(r2):
            res.inconclusive.append(session_problem(r2))
            return
        res.count('migrations')
        if root.get('part'):
            res.count('explicit_part_roots')
        if spec['files'][root['file']].get('multi'):
            res.count('multi_config_roots')
        if not r2['steps'][0]['ok']:
            res.violate(f'migrate(dry=True) failed: {r2["steps"][0].get("exc")}: {r2["steps"][0].get("msg")}', witness=witness, facts={'tag': 'dry_failed'})
            return
        t_dry = lab.tree_hash('target')
        res.count('dry_runs_checked')
        if t_dry:
            res.violate(f'dry=True wrote files into the target: {sorted(t_dry)[:5]}', witness=witness, facts={'tag': 'dry_wrote'})
            return
        opt_mode = rng.random() < 0.3
        if opt_mode:
            # the migration is started by an interpreter in optimised mode (python -O): the same results have to arrive
            res.count('migrations_run_with_python_O')
            witness['migration_interpreter_flags'] = ['-O']
        r3 = lab.run([dict(mig, dry=False)], data_dir=lab.root / 'src_data', py_flags=['-O'] if opt_mode else ())
        if session_problem(r3):
            res.inconclusive.append(session_problem(r3))
            return
        if not r3['steps'][0]['ok']:
            res.violate(f'migrate(dry=False) failed: {r3["steps"][0].get("exc")}: {r3["steps"][0].get("msg")}', witness=witness, facts={'tag': 'migrate_failed'})
            return
        t_after = lab.tree_hash('target')
        r4 = lab.run([dict(mig, dry=False)], data_dir=lab.root / 'src_data')
        if session_problem(r4):
            res.inconclusive.append(session_problem(r4))
            return
        res.count('second_migrations_checked')
        if not r4['steps'][0]['ok']:
            res.violate(f'second migration failed: {r4["steps"][0].get("exc")}: {r4["steps"][0].get("msg")}', witness=witness, facts={'tag': 'second_failed'})
            return
        t_again = lab.tree_hash('target')
        if t_again != t_after:
            diff = sorted(set(t_again.items()) ^ set(t_after.items()))[:4]
            res.violate(f'a second migration changed the target: {diff}', witness=witness, facts={'tag': 'second_changed'})
            return
        src_after = lab.tree_hash('src_data')
        res.count('source_trees_checked')
        if src_after != src_before:
            diff = sorted(set(src_after.items()) ^ set(src_before.items()))[:4]
            res.violate(f'the source directory was modified by the migration: {diff}', witness=witness, facts={'tag': 'source_modified'})
            return
        # the results were carried over: the target must not depend on the source directory any more
        if (lab.root / 'src_data').exists():
            (lab.root / 'src_data').rename(lab.root / 'src_data_moved_away')
        # parameter-mode chain on the target
        s5 = [{'op': 'build', 'chain': 'new', 'root': root, 'data_dir_name': 'target'}, {'op': 'inspect', 'chain': 'new', 'what': 'has_data', 'data_dir_name': 'target'}]
        order = list(names)
        rng.shuffle(order)
        s5 += [{'op': 'value', 'chain': 'new', 'task': n, 'data_dir_name': 'target'} for n in order]
        r5 = lab.run(s5, data_dir=lab.root / 'target')
        if session_problem(r5):
            res.inconclusive.append(session_problem(r5))
            return
    o = r5['steps']
    if not o[0]['ok']:
        res.violate(f'parameter-mode chain on the target failed to build: {o[0].get("exc")}: {o[0].get("msg")}', witness=witness, facts={'tag': 'target_build'})
        return
    new_has = o[1]['has_data']
    nt_dir = nt_un = False
    for n in names:
        kind = ref.tasks[n]['spec']['data_kind']
        if kind == 'memory':
            continue
        if bool(old_has.get(n)) != (n in computed):
            res.count('name_mode_has_data_unexpected_not_judged')
            return
        # identical computations under several names are one location in parameter mode: it has a result iff one of them had one
        same = [m for m in names if ref.tasks[m]['slug'] == ref.tasks[n]['slug'] and ref.tasks[m]['key'] == ref.tasks[n]['key']]
        exp_has = any(bool(old_has.get(m)) for m in same)
        if len(same) > 1:
            res.count('shared_computations_checked')
        if bool(new_has.get(n)) != exp_has:
            res.violate(f'{n}: has_data is {exp_has} in name mode on the source (over the names {same} of this computation) but {new_has.get(n)} in parameter mode on the target after migration '
                        f'(data kind {kind})', witness=witness, facts={'tag': 'has_data'})
            return
    ran_before = set()
    computed_eq = set(computed)
    for n in names:
        if any(m in computed for m in names if ref.tasks[m]['slug'] == ref.tasks[n]['slug'] and ref.tasks[m]['key'] == ref.tasks[n]['key']):
            computed_eq.add(n)
    computed = computed_eq
    for n, ob in zip(order, o[2:]):
        kind = ref.tasks[n]['spec']['data_kind']
        runs = [x['task'] for x in ob['runs'] if x['phase'] == 'start']
        if not ob['ok']:
            res.violate(f'{n}: requesting the value on the target failed: {ob.get("exc")}: {ob.get("msg")}', witness=witness, facts={'tag': 'value_failed'})
            return
        if ob['vdigest'] != ref.tasks[n]['vdigest']:
            res.violate(f'{n}: value on the target differs from the original ({"migrated" if n in computed else "computed there"}; digest {ob["vdigest"]}, '
                        f'reference {ref.tasks[n]["vdigest"]})', witness=witness, facts={'tag': 'value'})
            return
        if n in computed and kind != 'memory':
            res.count('migrated_results_loaded')
            if kind == 'dir_link':
                res.count('linked_directory_results_migrated')
            if kind == 'figure':
                res.count('figure_results_migrated')
            if kind in DIR_KINDS:
                res.count('directory_results_migrated')
                nt_dir = True
            if kind.startswith('empty'):
                res.count('empty_results_migrated')
                nt_dir = True
            if n in runs:
                res.violate(f'{n}: had a result in name mode but was run again on the migrated directory', witness=witness, facts={'tag': 'rerun'})
                return
            bad = [m for m in runs if m in computed and ref.tasks[m]['spec']['data_kind'] != 'memory']
            if bad:
                res.violate(f'{n}: requesting it ran migrated upstream tasks {bad}', witness=witness, facts={'tag': 'rerun'})
                return
        elif n not in computed:
            res.count('uncomputed_tasks_checked')
            nt_un = True
    if nt_dir and nt_un:
        res.nt(jhash([spec['files'], root, sorted(subset)]))
    if res.sample is None:
        res.sample = {'root': root, 'computed_in_name_mode': sorted(subset)[:8], 'tasks': {n: ref.tasks[n]['spec']['data_kind'] for n in names[:8]}}


def run_case(case) -> CaseResult:
    res = CaseResult()
    rng = random.Random(case['seed'])
    for i in range(case['n']):
        run_one(rng, res)
        if len(res.violations) > 3:
            break
    return res


def cases(tier, seed):
    rng = random.Random(f'c20-{seed}')
    n = 150 if tier == 'quick' else 5000
    for i in range(n):
        yield {'n': 2, 'seed': rng.randrange(1 << 30)}
