"""C14 — file caches return the value for the key, or recompute (dictionary model with unique values + damage ops)."""
from __future__ import annotations

import copy
import json
import random
import shutil
import tempfile
from pathlib import Path

from ..canon import tcanon
from ..core import CaseResult, jhash

LEVEL = 'exploration'
RULE = ('case = sequence of 8-40 operations (get, get_or_compute, forced, raising computer, damage: truncate to prefix {0,1,n/2,n-1}, '
        'empty, garbage, well-formed-but-wrong JSON (incl. the right key without a value member), delete, swap with another key\'s file) over 1-4 keys from a unicode alphabet on '
        'JsonCache(allow_nones both)/DataFrameCache/NumpyArrayCache/InMemoryCache and nested sub-caches; oracle = dictionary model, '
        'every computed value unique. non-trivial = sequence containing a hit after a store AND (a damage op followed by an access, or a '
        'sub-cache/other-key access between store and hit); distinct = hash(op sequence)')
REQUIRED = ['ops', 'hits', 'computes', 'forced_replacements', 'get_absent', 'get_present', 'raising_computers', 'damage_then_access',
            'truncations_recovered', 'swaps_reported', 'subcache_ops', 'roundtrips_checked', 'wrong_shape_json_recovered', 'json_entries_reduced_to_their_key', 'held_values_rechecked', 'forced_with_equal_value_of_other_json_type', 'returned_values_mutated_by_caller', 'refused_none_results', 'ops_in_non_utf8_locale', 'hits_in_non_utf8_locale']
ASSUMPTIONS = ['a damaged file that still loads to exactly the stored value counts as intact',
               'swap (foreign-key file) is only applied to JsonCache, the only cache type that records the key',
               'which exception type reports a foreign-key file is not checked; InMemoryCache is used from one thread']
BUDGET = {'quick': 45, 'thorough': 900}

KEYS = ['caf\u00e9', 'cafe\u0301', 'k', '', 'a/b', '../x', 'line\nbreak', 'é', '😀' * 3, 'K', 'k ', '{"key": "k"}', 'x' * 5000, 'x' * 4999 + 'y', 'q' * 300 + 'A', 'q' * 300 + 'B', '\x00', 'k ']


class Boom(Exception):
    pass


def gen_payload(rng, kind, uid):
    import numpy as np
    import pandas as pd
    if kind.startswith('json') and rng.random() < 0.12:
        # bare falsy values are legal cached values (None only where the cache allows it); they carry no provenance, the typed comparison still applies
        res_ = rng.choice([0, 0.0, False, '', [], {}, None])
        if kind == 'json_nonone' and res_ is None:
            res_ = 0
        return res_
    if kind.startswith('json'):
        size = rng.choice([0, 0, 1, 3, 40])
        body = rng.choice([None, 1, -2 ** 63, 2 ** 64 - 1, 0.5, 'é\n', True, [], {}, {'a': [1, {'b': None}]}, [1.0, 1, False, '']])
        if kind == 'json_nonone' and body is None:
            body = 0
        return ['v', uid, 'p' * size, body]
    if kind == 'pd':
        n = rng.choice([0, 1, 3, 50])
        return pd.DataFrame({'uid': [uid] * max(n, 1), 'x': list(range(max(n, 1))), 's': ['é'] * max(n, 1)})
    if kind == 'npy':
        n = rng.choice([0, 1, 5, 200])
        dt = rng.choice(['int64', 'float32', 'uint8', 'bool', '<U3', 'object', 'zero_d', 'strided'])
        import numpy as np
        if dt == 'zero_d':
            return np.array(uid * 1.5) if rng.random() < 0.5 else np.array(f'u{uid}')
        if dt == 'strided':
            # non-contiguous / Fortran-ordered views
            base = (np.arange(2 * (n + 1) * 3).reshape(2 * (n + 1), 3) + uid).astype('int64')
            return rng.choice([base[::2], base.T, np.asfortranarray(base)])
        if dt == 'object':
            # the cache stores with pickle and loads with allow_pickle=True: object arrays are in its domain
            a = np.empty(n + 1, dtype=object)
            a[0] = uid
            for j in range(n):
                a[j + 1] = [None, 'é', {'k': j}, 1.5][j % 4]
            return a
        if dt == '<U3':
            return np.array([str(uid)] + ['ab'] * n)
        return np.concatenate([np.array([uid % 200]), np.arange(n) % 2]).astype(dt) if dt != 'bool' else np.array([bool(uid % 2)] + [True] * n)
    return ['m', uid]


def make_cache(kind, root):
    from taskchain import cache as tc
    if kind == 'json':
        return tc.JsonCache(root)
    if kind == 'json_nonone':
        return tc.JsonCache(root, allow_nones=False)
    if kind == 'pd':
        return tc.DataFrameCache(root)
    if kind == 'npy':
        return tc.NumpyArrayCache(root)
    return tc.InMemoryCache()


def gen_ops(rng, kind):
    keys = rng.sample(KEYS, rng.randint(1, 4))
    if rng.random() < 0.12:
        # long keys of equal length that agree on a long prefix (keys built from large arguments that differ in a late one)
        keys = list(rng.choice([['q' * 300 + 'A', 'q' * 300 + 'B'], ['x' * 5000, 'x' * 4999 + 'y'], ['{"a": [' + '1, ' * 120 + '2]}', '{"a": [' + '1, ' * 120 + '3]}']]))
    if rng.random() < 0.3:
        # a key that is itself the hex digest of another key in use (and its prefix/remainder): keys are opaque strings, never file names
        import hashlib
        dg = hashlib.sha256(keys[0].encode()).hexdigest()
        keys += rng.sample([dg, dg[5:], dg[:5], dg.upper(), dg + '.json'], 2)
    subs = [(), ('s',), ('s', 't'), ('u',), ('2c624',)]
    rng.shuffle(subs)
    subs = subs[:rng.randint(1, 3)]
    ops = []
    for _ in range(rng.randint(8, 40)):
        r = rng.random()
        k = rng.choice(keys)
        sub = list(rng.choice(subs))
        if r < 0.22:
            ops.append({'op': 'get', 'key': k, 'sub': sub})
        elif r < 0.55:
            ops.append({'op': 'goc', 'key': k, 'sub': sub})
        elif r < 0.65:
            ops.append({'op': 'goc', 'key': k, 'sub': sub, 'force': True, 'morph': rng.random() < 0.3})
        elif r < 0.72:
            ops.append({'op': 'goc', 'key': k, 'sub': sub, 'raises': True, 'force': rng.random() < 0.4})
        elif r < 0.8 and kind == 'json_nonone':
            # the computation yields None for a cache that refuses None: the call fails and NOTHING is stored (an existing entry stays)
            # (only on the cache object itself: a sub-cache is created without the option and accepts None -- not judged)
            ops.append({'op': 'goc', 'key': k, 'sub': [], 'none_value': True, 'force': rng.random() < 0.5})
        elif r < 0.78:
            ops.append({'op': 'mutate_returned'})     # the caller modifies, in place, a value a lookup handed out earlier (its own copy)
        elif kind != 'memory':
            d = rng.choice(['trunc0', 'trunc1', 'trunchalf', 'truncn1', 'garbage', 'delete', 'swap', 'wrongjson', 'trunc_rand'])
            if d == 'swap' and (not kind.startswith('json') or len(keys) < 2):
                d = 'truncn1'
            if d == 'wrongjson' and not kind.startswith('json'):
                d = 'garbage'
            op = {'op': 'damage', 'how': d, 'key': k, 'sub': sub}
            if d == 'swap':
                op['other'] = rng.choice([x for x in keys if x != k])
            if d == 'wrongjson':
                op['text'] = rng.choice(['{}', '[]', 'null', '{"value": 42}', '{"kee": "zz", "value": 1}', '123', '"str"', '{"value": 1, "kee": null}x', '@KEYONLY', '@KEYONLY'])
            if d == 'trunc_rand':
                op['frac'] = rng.random()
            ops.append(op)
    return ops


def run_sequence(kind, ops, res: CaseResult):
    from taskchain import cache as tc
    root = Path(tempfile.mkdtemp(prefix='c14-')) if kind != 'memory' else None
    wit = {'cache': kind, 'ops': ops}
    try:
        base = make_cache(kind, root / 'c' if root else None)
        model = {}      # (sub, key) -> {'value': v, 'state': 'ok'|'damaged'|'foreign'|'maybe'}
        uid = [0]
        nontriv = {'hit': False, 'dmg_access': False, 'interleaved': False}
        held = []       # (op index, value object handed out, canonical form when it was handed out)

        def hold(i_, v_):
            if v_ is not None and v_ is not tc.NO_VALUE and len(held) < 60:
                held.append((i_, v_, tcanon(v_)))

        def check_held(where):
            for i_, v_, c_ in held:
                res.count('held_values_rechecked')
                if tcanon(v_) != c_:
                    res.violate(f'{where}: the value handed out by op#{i_} changed afterwards (now {short(v_)}) although the caller did not touch it', witness=wit)
                    return False
            return True
        last_store = {}
        ops_seen = []

        # a second cache OBJECT over the same directory (another component of the application, another process): what one stores the other finds
        base2 = make_cache(kind, root / 'c') if root else None

        def cache_for(sub):
            c = base
            if base2 is not None and (len(ops_seen) * 7 + len(sub)) % 3 == 1:
                c = base2
                res.count('ops_through_a_second_cache_object')
            ops_seen.append(1)
            for s in sub:
                c = c.subcache(s)
            if sub:
                res.count('subcache_ops')
            return c

        for i, op in enumerate(ops):
            res.count('ops')
            if op['op'] == 'mutate_returned':
                if held and kind != 'memory':      # (an in-memory cache keeps references by design)
                    import numpy as np
                    import pandas as pd
                    j, v_, c_ = held.pop(random.Random(i).randrange(len(held)))
                    try:
                        if isinstance(v_, list):
                            v_.append('MUTATED BY CALLER')
                        elif isinstance(v_, dict):
                            v_['MUTATED'] = 1
                        elif isinstance(v_, np.ndarray) and v_.size and v_.dtype.kind in 'iuf':
                            v_ += 100
                        elif isinstance(v_, pd.DataFrame):
                            v_['MUTATED'] = 0
                        res.count('returned_values_mutated_by_caller')
                    except Exception:
                        pass
                continue
            sub = tuple(op['sub'])
            mk = (sub, op['key'])
            ent = model.get(mk)
            c = cache_for(sub)
            here = f'op#{i} {op}'
            if op['op'] == 'damage':
                if ent is None:
                    continue
                fp = c.filepath(op['key'])
                if not fp.exists():
                    res.violate(f'{here}: model says an entry is stored but the cache file does not exist', witness=wit)
                    return
                data = fp.read_bytes()
                how = op['how']
                if how == 'delete':
                    fp.unlink()
                    del model[mk]
                    continue
                if how == 'swap':
                    omk = (sub, op['other'])
                    oent = model.get(omk)
                    if oent is None or oent['state'] != 'ok' or ent['state'] != 'ok':
                        continue
                    fp.write_bytes(c.filepath(op['other']).read_bytes())
                    ent['state'] = 'foreign'
                    ent['foreign_value'] = oent['value']
                    continue
                if how == 'garbage':
                    new = {'pd': b'not a pickle \x00\xff', 'npy': b'\x93NUMPY\x01\x00garbage'}.get(kind, b'\x00\xff\xfe garbage {')
                elif how == 'wrongjson':
                    new = op['text'].encode()
                    if op['text'] == '@KEYONLY':
                        # well-formed JSON that records the RIGHT key but has lost its value member: still not a stored value
                        try:
                            if ent['state'] != 'ok':    # e.g. a file recorded for another key stays one (and is reported) without its value
                                raise ValueError
                            obj = json.loads(data)
                            obj.pop('value')
                            new = json.dumps(obj).encode()
                            res.count('json_entries_reduced_to_their_key')
                        except Exception:
                            new = b'{}'
                else:
                    n = len(data)
                    cut = {'trunc0': 0, 'trunc1': 1, 'trunchalf': n // 2, 'truncn1': max(0, n - 1)}.get(how)
                    if cut is None:
                        cut = int(op['frac'] * n)
                    new = data[:cut]
                fp.write_bytes(new)
                ent['state'] = 'damaged'
                ent['damage'] = how
                continue
            if op['op'] == 'get':
                try:
                    got = c.get(op['key'])
                    exc = None
                except Exception as e:
                    got, exc = None, e
                hold(i, got)
                if ent is None:
                    res.count('get_absent')
                    if exc is not None or got is not tc.NO_VALUE:
                        res.violate(f'{here}: get on an absent key returned {got!r} / raised {exc!r}', witness=wit)
                        return
                elif ent['state'] == 'ok':
                    res.count('get_present')
                    res.count('roundtrips_checked')
                    if exc is not None or got is tc.NO_VALUE or tcanon(got) != tcanon(ent['value']):
                        res.violate(f'{here}: get returned {short(got)} / raised {exc!r}; stored value is {short(ent["value"])}', witness=wit)
                        return
                    nontriv['hit'] = True
                elif ent['state'] == 'foreign':
                    res.count('damage_then_access')
                    nontriv['dmg_access'] = True
                    if exc is None:
                        res.violate(f'{here}: file recorded for key {op["other"] if "other" in op else "?"!r} was not reported; get returned {short(got)}', witness=wit)
                        return
                    res.count('swaps_reported')
                else:
                    res.count('damage_then_access')
                    nontriv['dmg_access'] = True
                    if exc is not None:
                        res.violate(f'{here}: get on a damaged file ({ent["damage"]}) raised {type(exc).__name__}: {exc}', witness=wit)
                        return
                    if got is not tc.NO_VALUE:
                        if tcanon(got) == tcanon(ent['value']):
                            ent['state'] = 'ok'   # damage was not destructive
                        else:
                            res.violate(f'{here}: get returned {short(got)} from a damaged file ({ent["damage"]}); stored value was {short(ent["value"])}', witness=wit)
                            return
                continue
            # get_or_compute
            uid[0] += 1
            my_uid = uid[0]
            calls = []
            value = gen_payload(random.Random(my_uid * 7919 + len(ops)), kind, my_uid)
            if op.get('morph') and ent is not None and ent['state'] == 'ok' and kind.startswith('json'):
                # the forced recomputation returns a value that python considers EQUAL to the stored one but that is another JSON value (1 / 1.0 / true)
                from .c06 import type_morph
                mv = type_morph(ent['value'])
                if mv is not None:
                    value = mv
                    res.count('forced_with_equal_value_of_other_json_type')

            if op.get('none_value'):
                value = None

            def computer():
                calls.append(1)
                if op.get('raises'):
                    raise Boom(my_uid)
                return value
            if i % 3 == 1:
                # the loop-binding idiom: a computer all of whose parameters have defaults (it is still called without arguments)
                def computer(_value=value, _raises=op.get('raises'), *_more, **_kw):      # noqa: F811
                    calls.append(1)
                    if _raises:
                        raise Boom(my_uid)
                    return _value
                res.count('computers_with_optional_parameters')
            force = bool(op.get('force'))
            try:
                got = c.get_or_compute(op['key'], computer, force=force) if force else c.get_or_compute(op['key'], computer)
                exc = None
            except Exception as e:
                got, exc = None, e
            if kind != 'memory' or not calls:
                hold(i, got)
            if not check_held(here):
                return
            state = ent['state'] if ent else 'absent'
            if state == 'foreign' and not force:
                res.count('damage_then_access')
                nontriv['dmg_access'] = True
                if exc is None or isinstance(exc, Boom) or calls:
                    res.violate(f'{here}: entry file is recorded for another key; expected an error report, got value {short(got)} exc {exc!r} '
                                f'computer calls {len(calls)}', witness=wit)
                    return
                res.count('swaps_reported')
                continue
            expect_compute = force or state in ('absent', 'damaged')
            if state == 'damaged' and not force:
                res.count('damage_then_access')
                nontriv['dmg_access'] = True
                # non-destructive damage: a load of the exact stored value is legitimate
                if exc is None and not calls and tcanon(got) == tcanon(ent['value']):
                    ent['state'] = 'ok'
                    continue
            if expect_compute:
                if len(calls) != 1:
                    res.violate(f'{here}: computer called {len(calls)}x, expected once (entry state {state}, force={force}); '
                                f'returned {short(got)} exc {exc!r}', witness=wit)
                    return
                if op.get('none_value'):
                    res.count('refused_none_results')
                    if exc is None:
                        res.violate(f'{here}: the computation returned None for a cache created with allow_nones=False, but the call returned {short(got)}', witness=wit)
                        return
                    g2 = None
                    if state == 'foreign':
                        continue        # (a file recorded for another key is reported by every lookup, before and after)
                    try:
                        g2 = c.get(op['key'])
                    except Exception as e2:
                        res.violate(f'{here}: after the refused None result `get` raises {type(e2).__name__}: {e2} (the refused value was stored)', witness=wit)
                        return
                    if state in ('absent', 'damaged') and g2 is not tc.NO_VALUE and not (state == 'damaged' and tcanon(g2) == tcanon(ent['value'])):
                        res.violate(f'{here}: the refused None result left an entry: get returns {short(g2)}', witness=wit)
                        return
                    if state == 'ok' and (g2 is tc.NO_VALUE or tcanon(g2) != tcanon(ent['value'])):
                        res.violate(f'{here}: the refused None result of a forced call replaced / removed the stored entry: get returns {short(g2)}, stored {short(ent["value"])}', witness=wit)
                        return
                    continue
                if op.get('raises'):
                    res.count('raising_computers')
                    if not isinstance(exc, Boom):
                        res.violate(f'{here}: computer raised Boom but get_or_compute gave {short(got)} / {exc!r}', witness=wit)
                        return
                    # nothing stored by this computation: entry unchanged (absent stays absent, damaged stays damaged)
                    if state == 'absent':
                        g2 = c.get(op['key'])
                        if g2 is not tc.NO_VALUE:
                            res.violate(f'{here}: a raising computation left an entry: get returns {short(g2)}', witness=wit)
                            return
                    continue
                if exc is not None:
                    res.violate(f'{here}: get_or_compute raised {type(exc).__name__}: {exc} (entry state {state}, force={force})', witness=wit)
                    return
                res.count('computes')
                if state == 'damaged':
                    res.count('truncations_recovered')
                    if ent.get('damage') == 'wrongjson':
                        res.count('wrong_shape_json_recovered')
                if force and state == 'ok':
                    res.count('forced_replacements')
                if tcanon(got) != tcanon(value):
                    res.violate(f'{here}: returned {short(got)} but the computer produced {short(value)}', witness=wit)
                    return
                model[mk] = {'value': copy.deepcopy(value), 'state': 'ok'}       # (the caller may modify ITS object later)
                if any(k != mk for k in model):
                    nontriv['interleaved'] = True
            else:
                res.count('hits')
                res.count('roundtrips_checked')
                nontriv['hit'] = True
                if calls or exc is not None or tcanon(got) != tcanon(ent['value']):
                    res.violate(f'{here}: expected the stored value {short(ent["value"])} without computing; got {short(got)}, '
                                f'computer calls {len(calls)}, exc {exc!r}', witness=wit)
                    return
        # final sweep: every key/sub-cache returns exactly its own entry
        for (sub, key), ent in model.items():
            if ent['state'] != 'ok':
                continue
            got = cache_for(sub).get(key)
            res.count('roundtrips_checked')
            if got is tc.NO_VALUE or tcanon(got) != tcanon(ent['value']):
                res.violate(f'final sweep: sub-cache {sub} key {key[:30]!r} returns {short(got)}, stored {short(ent["value"])}', witness=wit)
                return
        if not check_held('end of sequence'):
            return
        if nontriv['hit'] and (nontriv['dmg_access'] or nontriv['interleaved']):
            res.nt(jhash(wit))
    finally:
        if root:
            shutil.rmtree(root, ignore_errors=True)


def short(v, n=120):
    r = repr(v)
    return r if len(r) < n else r[:n] + '…'


LOCALE_ENV = {'LC_ALL': 'C', 'LANG': 'C', 'PYTHONUTF8': '0', 'PYTHONCOERCECLOCALE': '0'}


def run_case_in_locale(case) -> CaseResult:
    """the same sequences, executed by a freshly started interpreter whose locale encoding is not UTF-8 (keys and values are unicode)"""
    import os
    import pickle
    import subprocess
    import sys
    fd, inp = tempfile.mkstemp(prefix='c14-loc-', suffix='.json')
    os.close(fd)
    outp = inp + '.out'
    res = CaseResult()
    try:
        import json
        Path(inp).write_text(json.dumps(dict(case, locale=None)))
        env = dict(os.environ, **LOCALE_ENV)
        env['PYTHONPATH'] = str(Path(__file__).resolve().parents[2]) + (os.pathsep + env['PYTHONPATH'] if env.get('PYTHONPATH') else '')
        try:
            r = subprocess.run([sys.executable, '-m', 'tc_verif.props.c14', inp, outp], env=env, capture_output=True, text=True, timeout=600)
        except subprocess.TimeoutExpired:
            res.inconclusive.append('interpreter with the C locale did not finish its sequences within 600s')
            return res
        if not os.path.exists(outp):
            res.inconclusive.append(f'interpreter with the C locale produced no result (exit {r.returncode}): {r.stderr[-300:]}')
            return res
        got = pickle.loads(Path(outp).read_bytes())
        enc = got.extra.pop('preferred_encoding', None)
        if not enc or enc.lower().replace('-', '') in ('utf8',):
            res.inconclusive.append(f'child interpreter reports locale encoding {enc!r}: the non-UTF-8 locale could not be established')
            return res
        n_ops = got.counters.get('ops', 0)
        got.counters = type(got.counters)({'ops_in_non_utf8_locale': n_ops, 'hits_in_non_utf8_locale': got.counters.get('hits', 0),
                                          'roundtrips_in_non_utf8_locale': got.counters.get('roundtrips_checked', 0)})
        for v in got.violations:
            v['what'] = f'[locale encoding {enc}] ' + v['what']
            if isinstance(v.get('witness'), dict):
                v['witness']['env'] = LOCALE_ENV
        got.nontrivial = set()
        return got
    finally:
        for p_ in (inp, outp):
            if os.path.exists(p_):
                os.unlink(p_)


def run_case(case) -> CaseResult:
    if case.get('locale'):
        return run_case_in_locale(case)
    res = CaseResult()
    rng = random.Random(case['seed'])
    for i in range(case['n']):
        kind = rng.choice(['json', 'json', 'json_nonone', 'pd', 'npy', 'memory'])
        ops = gen_ops(rng, kind)
        if rng.random() < 0.2:
            # the application turns warnings into errors (python -W error / pytest filterwarnings=error): a damaged file is still recomputed, not raised
            import warnings
            with warnings.catch_warnings():
                warnings.simplefilter('error')
                run_sequence(kind, ops, res)
            res.count('sequences_run_with_warnings_as_errors')
        else:
            run_sequence(kind, ops, res)
        if res.sample is None:
            res.sample = {'cache': kind, 'ops': [{k: (v if not isinstance(v, str) or len(v) < 40 else v[:40] + '…') for k, v in o.items()} for o in ops[:10]]}
        if res.violations:
            break
    return res


def cases(tier, seed):
    rng = random.Random(f'c14-{seed}')
    n = 100 if tier == 'quick' else 4000
    for i in range(n):
        yield {'n': 25, 'seed': rng.randrange(1 << 30)}
        if i % 12 == 5:
            yield {'n': 15, 'seed': rng.randrange(1 << 30), 'locale': 'C'}


if __name__ == '__main__':
    import json as _json
    import locale as _locale
    import pickle as _pickle
    import sys as _sys
    from ..core import setup_worker_process
    setup_worker_process()
    _case = _json.loads(Path(_sys.argv[1]).read_text())
    _res = run_case(_case)
    _res.extra['preferred_encoding'] = _locale.getpreferredencoding(False)
    Path(_sys.argv[2]).write_bytes(_pickle.dumps(_res))
