"""C10 — task names resolve uniquely or not at all.

Structural reference resolver over parsed names (namespace segments, group segments, name) with an explicit
don't-care zone, compared with the real `_find_task_full_name` (all queries, all permutations for small sets) and
with real `Chain[...]`, `in`, attribute access and `task.input_tasks[...]`.
"""
from __future__ import annotations

import itertools
import random
import shutil
import tempfile
from pathlib import Path

from ..core import CaseResult, jhash

LEVEL = 'exploration'
RULE = ('case = (set of task full names over confusable segment alphabets, query, permutation); oracle = structural '
        'matching (query namespace empty or equal; query group empty or equal; same name) + less-nested rule under '
        'strict (segment-boundary suffix) and liberal (component-wise suffix) readings; non-trivial = query has >=2 '
        'structural matches, or exactly one match via a shortened form while a textually confusable other name '
        '(prefix/suffix related segment) is present; distinct = hash(sorted name set, query)')
REQUIRED = ['fn_queries', 'short_form_inputs_bound', 'self_named_input_cases', 'multi_match_queries', 'must_raise_ambiguous', 'winner_required', 'chain_queries',
            'input_registry_queries', 'permutations_checked', 'run_arguments_resolved', 'run_arguments_resolved_by_less_nested_rule']
ASSUMPTIONS = ['"shorter form" = the whole namespace and/or the whole group path dropped (partial namespace/group paths '
               'must not match)',
               'where only the liberal reading finds a less-nested winner, raising and returning that winner are both '
               'accepted']
BUDGET = {'quick': 40, 'thorough': 900}
EXHAUSTIVE = {'quick': False, 'thorough': False}

NS = [(), ('n',), ('xn',), ('nx',), ('n', 'm'), ('m', 'n'), ('xn', 'm')]
GR = [(), ('g',), ('xg',), ('gx',), ('h', 'g'), ('g', 'h')]
NM = ['a', 'xa', 'ax', '_a', 'g']       # (`g` is also a group name)
SMALL_NS = [(), ('n',), ('xn',), ('m', 'n'), ('n', 'm')]
SMALL_GR = [(), ('g',), ('xg',), ('h', 'g')]
SMALL_NM = ['a', 'xa']


def fmt(ns, gr, nm):
    s = ':'.join(list(gr) + [nm])
    return '::'.join(list(ns) + [s])


def parse(full):
    parts = full.split('::')
    ns = tuple(parts[:-1])
    g = parts[-1].split(':')
    return ns, tuple(g[:-1]), g[-1]


def matches(q, f):
    qns, qg, qn = q
    fns, fg, fn = f
    return qn == fn and (qns == () or qns == fns) and (qg == () or qg == fg)


def is_suffix(a, b):
    return len(a) <= len(b) and (len(a) == 0 or tuple(b[-len(a):]) == tuple(a))


def liberal_le(c, t):
    return c[2] == t[2] and is_suffix(c[0], t[0]) and is_suffix(c[1], t[1])


def strict_le(cs, ts):
    return ts == cs or ts.endswith('::' + cs) or ts.endswith(':' + cs)


def oracle(query, names):
    """-> ('return', name) | ('raise',) | ('either', name)   [either = raise or return that name]"""
    q = parse(query)
    M = [n for n in names if matches(q, parse(n))]
    if len(M) == 0:
        return ('raise',), M
    if len(M) == 1:
        return ('return', M[0]), M
    if query in M:
        return ('return', query), M
    for c in M:
        if all(strict_le(c, t) for t in M):
            return ('return', c), M
    for c in M:
        if all(liberal_le(parse(c), parse(t)) for t in M):
            return ('either', c), M
    return ('raise',), M


def queries_for(names, rng, extra=6):
    qs = set()
    for n in names:
        ns, g, nm = parse(n)
        qs.add(n)
        qs.add(fmt((), g, nm))
        qs.add(fmt(ns, (), nm))
        qs.add(fmt((), (), nm))
        if len(ns) > 1:
            qs.add(fmt(ns[1:], g, nm))      # partial namespace: must not match by itself
            qs.add(fmt(ns[:1], g, nm))
        if len(g) > 1:
            qs.add(fmt(ns, g[1:], nm))      # partial group
            qs.add(fmt((), g[1:], nm))
    for _ in range(extra):
        qs.add(fmt(rng.choice(NS), rng.choice(GR), rng.choice(NM + ['b'])))
    return sorted(qs)


def observe(fn, query, names, **kw):
    try:
        return ('return', fn(query, list(names), **kw))
    except KeyError:
        return ('raise',)
    except Exception as e:  # any error counts as "raises an error"
        return ('raise', type(e).__name__)


def conforms(obs, exp):
    if exp[0] == 'return':
        return obs[0] == 'return' and obs[1] == exp[1]
    if exp[0] == 'raise':
        return obs[0] == 'raise'
    return obs[0] == 'raise' or (obs[0] == 'return' and obs[1] == exp[1])


def classify(query, names, M, exp, obs):
    """mechanism classification used only to match known findings (never seeds/values)."""
    return None


def confusable(names):
    segs = set()
    for n in names:
        ns, g, nm = parse(n)
        segs.update(ns)
        segs.update(g)
        segs.add(nm)
    return any(a != b and (a.endswith(b) or a.startswith(b)) for a in segs for b in segs)


def check_set(names, rng, res: CaseResult, perm_limit=24, where='fn'):
    from taskchain.task import _find_task_full_name
    names = list(names)
    for q in queries_for(names, rng):
        exp, M = oracle(q, names)
        if len(names) <= 4:
            perms = list(itertools.permutations(names))
            if len(perms) > perm_limit:
                perms = rng.sample(perms, perm_limit)
        else:
            perms = [names, names[::-1]] + [rng.sample(names, len(names)) for _ in range(4)]
        outs = {}
        for p in perms:
            o = observe(_find_task_full_name, q, p)
            outs.setdefault(o[:2] if o[0] == 'return' else ('raise',), p)
        res.count('fn_queries')
        res.count('permutations_checked', len(perms))
        if len(M) >= 2:
            res.count('multi_match_queries')
            res.nt(jhash([sorted(names), q]))
            if exp[0] == 'raise':
                res.count('must_raise_ambiguous')
            elif exp[0] == 'return':
                res.count('winner_required')
            else:
                res.count('dont_care_zone')
        elif len(M) == 1 and q != M[0] and confusable(names):
            res.nt(jhash([sorted(names), q]))
        if len(outs) > 1:
            res.violate(f'resolution of `{q}` depends on declaration order: {[(k, list(v)) for k, v in outs.items()]}',
                        witness={'names': names, 'query': q})
            continue
        obs = next(iter(outs))
        if not conforms(obs, exp):
            res.violate(f'query `{q}` over {sorted(names)}: structural matches {M}; expected {exp}, real resolver gave {obs}',
                        mech=classify(q, names, M, exp, obs), facts={'matches': M, 'expected': exp, 'observed': obs},
                        witness={'names': names, 'query': q})


# ---- through real chains ------------------------------------------------------------------------------------------

def build_chain(names, tmp, with_consumer=True, short_inputs=None, self_inputs=None, arg_consumers=None, rebuild=False, exclude_in=None):
    """Real chain whose task full names are exactly `names` (+ a consumer that has all of them as inputs)."""
    from taskchain import Config, Task
    from taskchain.data import JSONData  # noqa
    from taskchain.parameter import Parameter
    classes = {}

    def mk(slug_g, nm):
        # one class per group-qualified name; the per-namespace config value `p` makes every task a distinct computation
        if (slug_g, nm) not in classes:
            meta = type('Meta', (), {'name': nm, 'parameters': [Parameter('p')],
                                     **({'task_group': ':'.join(slug_g)} if slug_g else {}),
                                     **({'input_tasks': list(self_inputs[(slug_g, nm)])} if self_inputs and (slug_g, nm) in self_inputs else {})})

            def run(self) -> str:
                return self.fullname       # every task's value names the task
            classes[(slug_g, nm)] = type(f'T{len(classes)}', (Task,), {'Meta': meta, 'run': run, '__module__': __name__})
        return classes[(slug_g, nm)]

    by_ns = {}
    for n in names:
        ns, g, nm = parse(n)
        by_ns.setdefault(ns, []).append(mk(g, nm))
    all_ns = set(by_ns)
    for ns in list(all_ns):
        for k in range(len(ns)):
            all_ns.add(ns[:k])

    def mkconf(ns):
        children = sorted(c for c in all_ns if len(c) == len(ns) + 1 and c[:len(ns)] == ns)
        data = {'tasks': list(by_ns.get(ns, [])), 'uses': [mkconf(c) for c in children], 'p': '::'.join(ns)}
        if exclude_in is not None and ns == exclude_in[0]:
            # this config excludes a class that only OTHER configs declare: nothing changes anywhere
            data['excluded_tasks'] = list(exclude_in[1])
        if short_inputs and short_inputs.get(ns):
            # a dependant in this namespace that names its inputs by short forms (relative to its own namespace)
            # (every other short-form input is declared optional: an input that identifies a task is bound to it, the default is for absent ones)
            from taskchain.parameter import InputTaskParameter
            smeta = type('Meta', (), {'name': 'zz_short', 'input_tasks': [InputTaskParameter(q_, default='DEFAULT-NOT-A-TASK') if k_ % 2 else q_
                                                                             for k_, q_ in enumerate(short_inputs[ns])]})

            def srun(self) -> int:
                return 0
            data['tasks'] = data['tasks'] + [type('ShortConsumer', (Task,), {'Meta': smeta, 'run': srun, '__module__': __name__})]
        return Config(tmp, name='c_' + '_'.join(ns) if ns else 'root', namespace=ns[-1] if ns else None, data=data)

    if exclude_in == 'auto':
        exclude_in = None
        cands_ = [(ns_, [c_ for ns2_, cl_ in by_ns.items() if ns2_ != ns_ for c_ in cl_ if c_ not in by_ns.get(ns_, [])]) for ns_ in sorted(all_ns)]
        cands_ = [(ns_, cl_) for ns_, cl_ in cands_ if cl_]
        if cands_:
            exclude_in = cands_[len(names) % len(cands_)]
    root = mkconf(())
    if with_consumer:
        meta = type('Meta', (), {'name': 'zz_consumer', 'input_tasks': list(names)})

        def run(self) -> int:
            return 0
        root.data['tasks'] = list(root.data['tasks']) + [type('Consumer', (Task,), {'Meta': meta, 'run': run, '__module__': __name__})]
    for i, args in enumerate(arg_consumers or []):
        # dependants of every task whose `run` asks for some of them by bare argument names
        ameta = type('Meta', (), {'name': f'zz_args{i}', 'input_tasks': list(names)})
        ns_ = {}
        exec(f'def run(self, {", ".join(args)}) -> list:\n    return [{", ".join(args)}]\n', ns_)
        root.data['tasks'] = list(root.data['tasks']) + [type(f'ArgConsumer{i}', (Task,), {'Meta': ameta, 'run': ns_['run'], '__module__': __name__})]
    chain = root.chain()
    if rebuild:
        # the same config objects used for a second chain (and the first one thrown away): the names are the same names
        chain._first_build_names = sorted(chain.tasks)
        chain2 = root.chain()
        chain2._first_build_names = chain._first_build_names
        return chain2
    return chain


def check_self_named_input(names, rng, res: CaseResult, tmp):
    """one of the tasks itself declares an input by a short form that also matches the declaring task (`clean:users` asks for `users`)"""
    by_ns = {}
    for n in names:
        by_ns.setdefault(parse(n)[0], []).append(n)
    cands = []
    for ns, members in by_ns.items():
        for n in members:
            _, g, nm = parse(n)
            if sum(1 for m in names if parse(m)[1:] == (g, nm)) != 1:
                continue     # the class is used in one namespace only (a declaration on the class must not reach other namespaces)
            if any(m != n and parse(m)[2] == nm for m in members):
                cands.append((ns, members, n))
    if not cands:
        return
    ns, members, n = rng.choice(cands)
    rel = [fmt((), *parse(m)[1:]) for m in members]
    me = fmt((), *parse(n)[1:])
    q = parse(n)[2]
    exp, M = oracle(q, rel)
    if exp[0] == 'either':
        return
    res.count('self_named_input_cases')
    wit = {'names': names, 'declaring_task': n, 'input': q}
    try:
        chain = build_chain(names, tmp, with_consumer=False, self_inputs={parse(n)[1:]: [q]})
        built, err = True, None
    except Exception as e:
        built, err = False, f'{type(e).__name__}: {str(e)[:150]}'
    must_fail = exp[0] == 'raise' or exp[1] == me
    if must_fail and built:
        bound = chain.tasks[n].input_tasks.task_list
        res.violate(f'task {n} of chain {sorted(names)} declares the input `{q}`, which matches {M} in its namespace (' +
                    ('no match is the less nested form of the others' if exp[0] == 'raise' else 'the less nested match is the task itself') +
                    f'): construction must fail, but the input was bound to {[str(b) for b in bound]}', witness=wit)
    elif not must_fail and not built:
        res.violate(f'task {n} of chain {sorted(names)} declares the input `{q}` which resolves uniquely to {exp[1]}, but construction failed: {err}', witness=wit)
    elif not must_fail:
        want = chain.tasks[fmt(ns, *parse(exp[1])[1:])]
        got = chain.tasks[n].input_tasks.task_list
        if len(got) != 1 or got[0] is not want:
            res.violate(f'task {n} of chain {sorted(names)}: input `{q}` bound to {[str(b) for b in got]}, expected {exp[1]}', witness=wit)


def check_run_arguments(names, rng, res: CaseResult, tmp):
    """arguments of `run` are names looked up among the input tasks by the same rule: a bare name that identifies one input (alone, or as the
    less nested form) delivers that task's value; one that identifies none uniquely makes the request fail"""
    bare = sorted({parse(n)[2] for n in names})
    good, bad = [], []
    for nm in bare:
        exp, M = oracle(nm, list(names))
        if exp[0] == 'return':
            good.append((nm, exp[1], len(M)))
        elif exp[0] == 'raise' and len(M) >= 2:
            bad.append(nm)
    groups = ([[g[0] for g in good]] if good else []) + [[b] for b in bad[:1]]
    if not groups:
        return
    wit = {'names': names, 'run_arguments': groups}
    try:
        chain = build_chain(names, Path(tmp), with_consumer=False, arg_consumers=groups)
    except Exception as e:
        res.violate(f'chain with tasks {sorted(names)} and dependants whose run takes the arguments {groups} cannot be constructed: {type(e).__name__}: {e}', witness=wit)
        return
    k = 0
    if good:
        try:
            vals = chain.tasks['zz_args0'].value
        except Exception as e:
            res.violate(f'dependant of all tasks {sorted(names)} with run(self, {", ".join(g[0] for g in good)}): every argument identifies one input '
                        f'({[(g[0], g[1]) for g in good]}), but the request failed: {type(e).__name__}: {str(e)[:200]}', witness=wit)
            vals = None
        for (nm, want, nmatch), v in zip(good, vals or []):
            res.count('run_arguments_resolved')
            if nmatch >= 2:
                res.count('run_arguments_resolved_by_less_nested_rule')
                res.nt(jhash([sorted(names), nm, 'run_arg']))
            if v != want:
                res.violate(f'dependant of all tasks {sorted(names)}: run argument `{nm}` received the value of {v!r}, expected the value of {want}', witness=wit)
        k = 1
    if bad:
        res.count('ambiguous_run_arguments')
        try:
            v = chain.tasks[f'zz_args{k}'].value
            res.violate(f'dependant of all tasks {sorted(names)}: run argument `{bad[0]}` matches several inputs none of which is the less nested form, '
                        f'but the request returned {v!r}', witness=wit)
        except Exception:
            res.count('ambiguous_run_arguments_refused')


def check_chain(names, rng, res: CaseResult):
    tmp = tempfile.mkdtemp(prefix='c10-')
    try:
        check_self_named_input(names, rng, res, tmp)
        # dependants with short-form inputs: per namespace, for some tasks declared exactly there, a form without the group that the rule
        # resolves to that task among the tasks of this namespace (inputs are looked up in the dependant's own namespace)
        short_inputs, short_expect = {}, {}
        by_ns_names = {}
        for n in names:
            by_ns_names.setdefault(parse(n)[0], []).append(n)
        for ns, members in by_ns_names.items():
            rel = [fmt((), parse(n)[1], parse(n)[2]) for n in members]
            chosen, targets = [], set()
            for r in rng.sample(rel, len(rel)):
                q = rng.choice([parse(r)[2], parse(r)[2], r])
                exp, _ = oracle(q, rel)
                if exp[0] == 'return' and exp[1] not in targets and q not in chosen:
                    chosen.append(q)
                    targets.add(exp[1])
                    short_expect[(ns, q)] = fmt(ns, *parse(exp[1])[1:])
            if chosen and rng.random() < 0.8:
                short_inputs[ns] = chosen
        short_ok = False
        if short_inputs:
            try:
                chain_s = build_chain(names, tmp, short_inputs=short_inputs)
                short_ok = True
            except Exception as e:
                res.violate(f'chain with tasks {sorted(names)}: dependants declaring inputs by short forms {short_inputs} (each resolving uniquely in the '
                            f'dependant\'s namespace) cannot be constructed: {type(e).__name__}: {e}', witness={'names': names, 'short_inputs': {"::".join(k): v for k, v in short_inputs.items()}})
        if short_ok:
            for ns, qs in short_inputs.items():
                dep = chain_s.tasks[fmt(ns, (), 'zz_short')]
                for q, bound in zip(qs, dep.input_tasks.task_list):
                    res.count('short_form_inputs_bound')
                    want = chain_s.tasks[short_expect[(ns, q)]]
                    if bound is not want:
                        res.violate(f'dependant in namespace `{"::".join(ns)}` of chain {sorted(names)}: input `{q}` was bound to {bound}, expected {short_expect[(ns, q)]}',
                                    witness={'names': names, 'ns': list(ns), 'input': q})
        try:
            rebuild = not short_ok and rng.random() < 0.5
            chain = chain_s if short_ok else build_chain(names, tmp, rebuild=rebuild, exclude_in='auto' if rng.random() < 0.5 else None)
            if rebuild:
                res.count('chains_built_twice_from_the_same_config_objects')
                if sorted(chain.tasks) != chain._first_build_names:
                    res.violate(f'two chains built one after the other from the same config objects (nested namespaces given as Config objects in `uses`) expose '
                                f'different task names: first {chain._first_build_names}, second {sorted(chain.tasks)}', witness={'names': names, 'via': 'rebuild'})
                    return
            if short_ok:
                # drop the short dependants from the universe of names (they are extra tasks of the same chain: queries below run AFTER their inputs
                # were resolved, on the same chain object)
                pass
            consumer = chain.tasks['zz_consumer']
        except Exception as e:
            # construction itself resolves the consumer's inputs by *full name*: each must be found (V1)
            try:
                chain = build_chain(names, tmp, with_consumer=False)
            except Exception as e2:
                res.inconclusive.append(f'could not build chain for {names}: {type(e2).__name__}: {e2}')
                return
            res.violate(f'chain with tasks {sorted(names)}: a dependant declaring every task by its full name cannot be '
                        f'constructed: {type(e).__name__}: {e}', witness={'names': names, 'via': 'construction'})
            consumer = None
        check_run_arguments(names, rng, res, tmp)
        got = {n for n in chain.tasks if n != 'zz_consumer' and not n.endswith('zz_short')}
        if got != set(names):
            # the classes and namespaces given to the chain have exactly the full names `names`
            res.violate(f'a chain built from tasks whose full names are {sorted(names)} (plus dependants naming them) exposes the task names {sorted(got)}',
                        witness={'names': names, 'via': 'chain.tasks'})
            return
        full = [n for n in chain.tasks if not n.endswith('zz_short')]
        ids = {}
        for n, t in chain.tasks.items():
            ids.setdefault(id(t), n)
        if len({id(chain.tasks[n]) for n in full}) != len(full):
            res.inconclusive.append(f'tasks of {sorted(names)} are not distinct objects')
            return

        def name_of(t):
            return ids.get(id(t), f'<foreign object {t!r}>') if t is not None else None
        for q in queries_for(names, rng, extra=3):
            for via in ('chain', 'in', 'attr', 'inputs', 'inputs_in', 'force'):
                universe = full if via in ('chain', 'in', 'attr', 'force') else list(names)
                if via.startswith('inputs') and consumer is None:
                    continue
                if via == 'attr' and not q.isidentifier():
                    continue
                exp, M = oracle(q, universe)
                if via == 'force':
                    # a name that identifies no task uniquely is refused by force as by every other access
                    if exp[0] != 'raise' or len(M) < 2:
                        continue
                    try:
                        chain.force(q)
                        res.violate(f'force(`{q}`) on chain with tasks {sorted(names)}: the name matches {M} (none is the less nested form), expected a refusal, '
                                    f'but tasks were forced', witness={'names': names, 'query': q, 'via': 'force'})
                    except (KeyError, ValueError, AttributeError):
                        res.count('ambiguous_names_refused_by_force')
                    continue
                try:
                    if via == 'chain':
                        obs = ('return', name_of(chain[q]))
                    elif via == 'attr':
                        obs = ('return', name_of(getattr(chain, q)))
                    elif via == 'in':
                        obs = ('return', None) if (q in chain) else ('raise',)
                    elif via == 'inputs':
                        obs = ('return', name_of(consumer.input_tasks[q]))
                    else:
                        obs = ('return', None) if (q in consumer.input_tasks) else ('raise',)
                except (KeyError, AttributeError, ValueError) as e:
                    obs = ('raise',)
                if via in ('in', 'inputs_in'):
                    ok = (exp[0] == 'either') or (exp[0] == 'return') == (obs[0] == 'return')
                else:
                    ok = conforms(obs, exp)
                res.count('chain_queries' if via in ('chain', 'in', 'attr') else 'input_registry_queries')
                if len(M) >= 2:
                    res.nt(jhash([sorted(names), q, via]))
                if not ok:
                    res.violate(f'{via} access `{q}` on chain with tasks {sorted(names)}: matches {M}; expected {exp}, got {obs}',
                                mech=classify(q, universe, M, exp, obs), witness={'names': names, 'query': q, 'via': via})
    finally:
        shutil.rmtree(tmp, ignore_errors=True)


def gen_set(rng, small=False):
    k = rng.choice([1, 2, 2, 3, 3, 4, 5, 6])
    out = set()
    ns_pool = rng.sample(NS, rng.randint(1, 3)) if not small else SMALL_NS
    gr_pool = rng.sample(GR, rng.randint(1, 3))
    nm_pool = rng.sample(NM, rng.randint(1, 2))
    tries = 0
    while len(out) < k and tries < 50:
        out.add(fmt(rng.choice(ns_pool), rng.choice(gr_pool), rng.choice(nm_pool)))
        tries += 1
    return sorted(out)


def small_universe():
    return [fmt(ns, g, nm) for ns in SMALL_NS for g in SMALL_GR for nm in SMALL_NM]


def run_case(case) -> CaseResult:
    res = CaseResult()
    rng = random.Random(case['seed'])
    if case['kind'] == 'random':
        sets = [gen_set(rng) for _ in range(case['n'])]
        for s in sets:
            check_set(s, rng, res)
        res.sample = {'kind': 'fn', 'names': sets[0], 'queries': queries_for(sets[0], random.Random(0))[:8]}
    elif case['kind'] == 'exhaustive':
        U = small_universe()
        combos = list(itertools.islice(itertools.combinations(U, case['k']), case['lo'], case['hi']))
        for s in combos:
            check_set(list(s), rng, res)
        res.count('exhaustive_sets', len(combos))
        res.sample = {'kind': 'exhaustive', 'k': case['k'], 'range': [case['lo'], case['hi']], 'first': list(combos[0]) if combos else None}
    elif case['kind'] == 'chain':
        sets = [gen_set(rng) for _ in range(case['n'])]
        for s in sets:
            check_chain(s, rng, res)
        res.sample = {'kind': 'chain', 'names': sets[0]}
    elif case['kind'] == 'witness':
        for s in case['sets']:
            check_set(s, rng, res)
            check_chain(s, rng, res)
        res.sample = {'kind': 'witness', 'sets': case['sets']}
    return res


WITNESS_SETS = [['n::a', 'xn::a'], ['g:a', 'xg:a'], ['n::g:a', 'n::a'], ['a', 'n::a', 'g:a'], ['m::n::a', 'n::a'],
                ['h:g:a', 'g:a'], ['n::g:a', 'n::xg:a', 'a'], ['n::m::a', 'xn::m::a', 'm::a']]


def cases(tier, seed):
    import math
    rng = random.Random(f'c10-{seed}')
    yield {'kind': 'witness', 'sets': WITNESS_SETS, 'seed': 1}
    U = len(small_universe())
    # bounded exhaustive: all sets of <=2 (quick) / <=3 (thorough) names over the small universe
    for k in ([1, 2] if tier == 'quick' else [1, 2, 3]):
        total = math.comb(U, k)
        step = 200
        for lo in range(0, total, step):
            yield {'kind': 'exhaustive', 'k': k, 'lo': lo, 'hi': min(total, lo + step), 'seed': rng.randrange(1 << 30)}
    n_rand = 60 if tier == 'quick' else 3000
    for i in range(n_rand):
        yield {'kind': 'random', 'n': 40, 'seed': rng.randrange(1 << 30)}
        if i % 2 == 0:
            yield {'kind': 'chain', 'n': 8, 'seed': rng.randrange(1 << 30)}
