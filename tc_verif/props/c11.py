"""C11 — placeholders are substituted everywhere, once, and nothing else changes."""
from __future__ import annotations

import copy
import json
import random
import re
import shutil
import tempfile
from pathlib import Path

from ..canon import tcanon
from ..core import CaseResult, jhash

LEVEL = 'exploration'
RULE = ('case = (JSON-like tree with placeholder strings at random depths, global_vars as mapping or object); oracle = '
        'reference substitution of every {NAME} with NAME defined (single left-to-right pass over brace pairs), typed '
        'comparison of every non-string leaf and of the container structure with a pre-copy, idempotence, str-likeness, '
        'repr == repr(original text) also after copy/deepcopy of the string, its container and its Config; plus real '
        'Config/Chain constructions with placeholders in `uses` paths, context values and object-definition arguments. '
        'non-trivial = tree holds >=1 string with a defined placeholder at depth >=1; distinct = hash(tree, vars)')
REQUIRED = ['trees', 'strings_substituted', 'strings_undefined_only', 'nonstring_leaves_checked', 'second_application',
            'copies_checked', 'config_cases', 'uses_path_substituted', 'object_args_substituted', 'context_values_substituted',
            'config_object_uses_checked', 'context_reuse_configs', 'path_parameters_checked', 'context_uses_paths_with_placeholder', 'typed_parameters_checked', 'file_reuse_configs', 'gv_style_property', 'gv_style_inherited', 'gv_style_module']
ASSUMPTIONS = ['strings where a `{` occurs inside an open brace pair ({{A}}, {a{B}}) are ambiguous: only idempotence, type and '
               'non-interference are checked there',
               'mapping keys, tuples/sets, dunder attribute names and replacement values containing braces are outside the checked text oracle']
BUDGET = {'quick': 40, 'thorough': 900}

NAMES = ['A', 'B', 'DATA_DIR', 'X1', 'name', 'Z']
UNDEF = ['U', 'MISSING', 'a b', '', 'A ', '0', 'items', 'keys', 'values', 'get', 'copy', 'pop']      # (also names of methods of mappings: not keys)
ODD_NAMES = ['data-dir', 'run.id', 'my var', 'é', '1', 'a:b', 'x/y', 'A.B']
MAPPING_STYLES = ('dict', 'ordered_dict', 'defaultdict', 'fallback_dict', 'falsy_mapping')
AMBIG = re.compile(r'\{[^}]*\{')


class GV:
    """object-style global vars"""

    def __init__(self, d):
        for k, v in d.items():
            setattr(self, k, v)


GV_STYLES = ['dict', 'ordered_dict', 'instance', 'class_attrs', 'inherited', 'property', 'namespace', 'module', 'mixed', 'slots', 'defaultdict', 'fallback_dict', 'falsy_object', 'falsy_mapping']


def make_gv(vars_, style):
    """global_vars holding exactly vars_: a mapping, or an object whose attributes (however they are defined) are the names"""
    import collections
    import types
    if style in (False, 'dict'):
        return dict(vars_)
    if style in (True, 'instance'):
        return GV(vars_)
    if style == 'ordered_dict':
        return collections.OrderedDict(vars_)
    if style == 'defaultdict':
        # a mapping with a fallback for unknown keys: `name in mapping` still says which names are DEFINED
        return collections.defaultdict(str, vars_)
    if style == 'falsy_object':
        # a settings object that defines the names but whose truth value is False (e.g. it has a __len__ of its own)
        cls = type('GVFalsy', (), {'__bool__': lambda self: False, '__len__': lambda self: 0})
        obj = cls()
        for k, v in vars_.items():
            setattr(obj, k, v)
        return obj
    if style == 'falsy_mapping':
        class LazySettings(dict):
            def __len__(self):
                return 0          # (counts only what was "loaded"; membership and item access work)
        return LazySettings(vars_)
    if style == 'fallback_dict':
        class Fallback(dict):
            def __missing__(self, key):
                return None
        return Fallback(vars_)
    if style == 'class_attrs':
        return type('GVClass', (), dict(vars_))()
    if style == 'inherited':
        base = type('GVBase', (), dict(vars_))
        return type('GVChild', (base,), {})()
    if style == 'property':
        ns = {k: property(lambda self, _v=v: _v) for k, v in vars_.items()}
        return type('GVProp', (), ns)()
    if style == 'namespace':
        return types.SimpleNamespace(**vars_)
    if style == 'module':
        m = types.ModuleType('gv_settings')
        for k, v in vars_.items():
            setattr(m, k, v)
        return m
    if style == 'mixed':
        items = list(vars_.items())
        obj = type('GVMixed', (), dict(items[::2]))()
        for k, v in items[1::2]:
            setattr(obj, k, v)
        return obj
    if style == 'slots':
        cls = type('GVSlots', (), {'__slots__': tuple(vars_)})
        obj = cls()
        for k, v in vars_.items():
            setattr(obj, k, v)
        return obj
    raise ValueError(style)


def ref_sub(s, vars_):
    def rep(m):
        n = m.group(1)
        return str(vars_[n]) if n in vars_ else m.group(0)
    return re.sub(r'\{([^{}]*)\}', rep, s)


def gen_string(rng, defined):
    parts = []
    for _ in range(rng.randint(0, 5) if rng.random() > 0.04 else rng.randint(18, 45)):      # (now and then a long template with dozens of groups)
        r = rng.random()
        if r < 0.35 and defined:
            parts.append('{' + rng.choice(defined) + '}')
        elif r < 0.5:
            parts.append('{' + rng.choice(UNDEF) + '}')
        elif r < 0.58:
            parts.append(rng.choice(['{', '}', '}{', '{}', '{{A}}', '{a{B}}', '}}', '{ {A}']))
        else:
            parts.append(rng.choice(['x', '/', 'data/', ' ', 'é', '\n', "'", '"', '$', '.json', 'ab', '0', '\\']))
    return ''.join(parts)


def gen_tree(rng, defined, depth=0):
    r = rng.random()
    if depth < 4 and r < 0.25:
        return [gen_tree(rng, defined, depth + 1) for _ in range(rng.randint(0, 4))]
    if depth < 4 and r < 0.5:
        d_ = {rng.choice(['k', 'p', 'q', 'path', 'kw']) + str(i): gen_tree(rng, defined, depth + 1) for i in range(rng.randint(0, 4))}
        if rng.random() < 0.12:
            # mappings that are dict SUBCLASSES (code-built configs, YAML with python tags) are mappings
            import collections
            d_ = collections.OrderedDict(d_) if rng.random() < 0.5 else collections.defaultdict(list, d_)
        return d_
    if r < 0.85:
        return gen_string(rng, defined)
    return rng.choice([None, True, False, 0, 1, -7, 2 ** 70, 0.5, -0.0, 1e300])


def walk(t, path=()):
    if isinstance(t, list):
        for i, v in enumerate(t):
            yield from walk(v, path + (i,))
    elif isinstance(t, dict):
        for k, v in t.items():
            yield from walk(v, path + (k,))
    else:
        yield path, t


def get(t, path):
    for p in path:
        t = t[p]
    return t


def str_likeness(s, plain, res, wit):
    from taskchain.utils import json as tjson
    probs = []
    if not isinstance(s, str):
        probs.append(f'not a str: {type(s)}')
    else:
        if not (s == plain and plain == s):
            probs.append('== with the plain text fails')
        if hash(s) != hash(plain):
            probs.append('hash differs')
        if {plain: 1}.get(s) != 1:
            probs.append('dict lookup fails')
        if 'p' + s + 'q' != 'p' + plain + 'q':
            probs.append('concatenation differs')
        if f'{s}' != plain or '%s' % s != plain or str(s) != plain:
            probs.append('formatting differs')
        if plain and '\x00' not in plain and Path(s) != Path(plain):
            probs.append('Path() differs')
        if s.upper() != plain.upper() or s.split('/') != plain.split('/') or len(s) != len(plain):
            probs.append('str methods differ')
        try:
            if json.dumps(s) != json.dumps(plain) or tjson.dumps({'v': s}) != tjson.dumps({'v': plain}):
                probs.append('JSON serialisation differs')
        except Exception as e:
            probs.append(f'JSON serialisation raises {type(e).__name__}')
    if probs:
        res.violate(f'substituted string {plain!r} does not behave as an ordinary str: {probs}', witness=wit)


def check_tree(tree, vars_, as_object, res: CaseResult, rng):
    from taskchain.utils.data import search_and_replace_placeholders
    orig = copy.deepcopy(tree)
    gv = make_gv(vars_, as_object)
    res.count(f'gv_style_{as_object if isinstance(as_object, str) else ("instance" if as_object else "dict")}')
    wit = {'tree': orig, 'vars': {k: repr(v) for k, v in vars_.items()}, 'as_object': as_object}
    work = copy.deepcopy(tree)
    try:
        out = search_and_replace_placeholders(work, gv)
    except Exception as e:
        res.violate(f'search_and_replace_placeholders raised {type(e).__name__}: {e}', witness=wit)
        return
    if not isinstance(tree, str) and out is not work:
        res.violate('search_and_replace_placeholders did not return the traversed object', witness=wit)
    if isinstance(gv, dict) and {k: gv[k] for k in dict.keys(gv)} != dict(vars_):
        res.violate(f'the global_vars mapping was modified by the substitution: {dict(gv)!r} (was {dict(vars_)!r})', witness=wit)
    # the caller corrects a variable / defines a new one in the SAME object and substitutes a fresh copy of the data: the new values count
    if rng.random() < 0.3 and as_object in ('dict', 'ordered_dict', 'instance', 'namespace', 'module', 'defaultdict', 'falsy_mapping', True, False):
        vars2 = dict(vars_)
        for k in list(vars2)[:1]:
            vars2[k] = 'corrected'
        vars2['U'] = 'now-defined'
        for k, v in vars2.items():
            if isinstance(gv, dict):
                gv[k] = v
            else:
                setattr(gv, k, v)
        fresh = copy.deepcopy(orig)
        try:
            out2 = search_and_replace_placeholders(fresh, gv)
        except Exception as e:
            res.violate(f'substitution after the global_vars object was updated raised {type(e).__name__}: {e}', witness=wit)
            return
        res.count('substitutions_after_global_vars_update')
        o2 = dict(walk(orig)) if not isinstance(orig, str) else {(): orig}
        n2 = dict(walk(out2)) if not isinstance(out2, str) else {(): out2}
        for path_, leaf in o2.items():
            if isinstance(leaf, str) and not AMBIG.search(leaf) and path_ in n2:
                if not any(isinstance(v, str) and '{' in v for v in vars2.values()) and str(n2[path_]) != ref_sub(leaf, vars2):
                    res.violate(f'after updating the global_vars object ({vars2}) the string {leaf!r} at {path_} was substituted to {str(n2[path_])!r}, expected {ref_sub(leaf, vars2)!r}',
                                witness=wit)
                    break
    res.count('trees')
    nontriv = False
    # structure + leaves
    o_leaves = dict(walk(orig)) if not isinstance(orig, str) else {(): orig}
    n_leaves = dict(walk(out)) if not isinstance(out, str) else {(): out}
    if set(o_leaves) != set(n_leaves):
        res.violate(f'container structure changed: paths {sorted(map(str, set(o_leaves) ^ set(n_leaves)))[:5]}', witness=wit)
        return
    for path, ov in o_leaves.items():
        nv = n_leaves[path]
        if not isinstance(ov, str):
            res.count('nonstring_leaves_checked')
            if tcanon(ov) != tcanon(nv) or type(ov) is not type(nv):
                res.violate(f'non-string leaf at {path} changed from {ov!r} to {nv!r}', witness=wit)
            continue
        if not isinstance(nv, str):
            res.violate(f'string leaf at {path} became {type(nv).__name__}', witness=wit)
            continue
        ambiguous = bool(AMBIG.search(ov)) or any('{' in str(v) or '}' in str(v) for v in vars_.values())
        expected = ref_sub(ov, vars_)
        if not ambiguous:
            if str.__str__(nv) != expected:
                res.violate(f'string at {path}: {ov!r} substituted to {str.__str__(nv)!r}, expected {expected!r}', witness=wit)
                continue
            if expected != ov:
                res.count('strings_substituted')
                if len(path) >= 1:
                    nontriv = True
            elif '{' in ov:
                res.count('strings_undefined_only')
        else:
            res.count('ambiguous_strings')
        plain = str.__str__(nv)
        # representation keeps the placeholder form
        if repr(nv) != repr(ov) and not ambiguous:
            res.violate(f'repr of substituted string at {path} is {repr(nv)} but the original text is {ov!r}', witness=wit)
        if plain != ov and not ambiguous:
            str_likeness(nv, plain, res, wit)
        # copies keep value and repr
        for how, cp in (('copy', copy.copy(nv)), ('deepcopy', copy.deepcopy(nv))):
            res.count('copies_checked')
            if str.__str__(cp) != plain:
                res.violate(f'{how} of substituted string changed its text: {str.__str__(cp)!r} vs {plain!r}', witness=wit)
            elif repr(cp) != repr(nv):
                res.violate(f'repr after {how} of the substituted string for {ov!r}: {repr(cp)} (before the copy: {repr(nv)})',
                            mech='reprstr-copy-requote', witness=wit)
    # container deep copy
    if not isinstance(out, str):
        dc = copy.deepcopy(out)
        for path, nv in n_leaves.items():
            if isinstance(nv, str):
                cv = get(dc, path)
                res.count('copies_checked')
                if str.__str__(cv) != str.__str__(nv) or repr(cv) != repr(nv):
                    res.violate(f'after deepcopy of the container, string at {path}: text {str.__str__(cv)!r} repr {repr(cv)} '
                                f'(before: {str.__str__(nv)!r} / {repr(nv)})', mech='reprstr-copy-requote', witness=wit)
                    break
    # idempotence
    before = [(p, str.__str__(v), repr(v)) for p, v in n_leaves.items() if isinstance(v, str)]
    try:
        out2 = search_and_replace_placeholders(out, gv)
    except Exception as e:
        res.violate(f'second application raised {type(e).__name__}: {e}', witness=wit)
        return
    res.count('second_application')
    n2 = dict(walk(out2)) if not isinstance(out2, str) else {(): out2}
    for p, txt, rp in before:
        v2 = n2.get(p)
        if not isinstance(v2, str) or str.__str__(v2) != txt or repr(v2) != rp:
            res.violate(f'second application changed the string at {p}: text {txt!r}->{v2!r}, repr {rp}->{repr(v2)}', witness=wit)
            break
    if nontriv:
        res.nt(jhash([orig, sorted((k, repr(v)) for k, v in vars_.items()), as_object]))


# ---- through real Config / Chain ----------------------------------------------------------------------------------

def check_config_case(rng, res: CaseResult):
    """placeholders in `uses` paths, context values, object-definition arguments, parameters of a real chain."""
    import yaml
    from taskchain import Config, Task
    from taskchain.parameter import Parameter, AutoParameterObject
    tmp = Path(tempfile.mkdtemp(prefix='c11-'))
    try:
        sub = rng.choice(['cfgs', 'c d', 'ünï', 'x1'])
        (tmp / sub).mkdir()
        vars_ = {'DIR': str(tmp / sub), 'A': rng.choice(['va', '1', 'x/y', 'é']), 'NUM': rng.randint(0, 99), 'B': 'bb',
                 'STORE': rng.choice(['~/store', '~', '/abs/store', 'rel/store', '~user/x'])}
        as_object = rng.choice(GV_STYLES)
        gv = make_gv(vars_, as_object)
        nested = {'deep': ['{A}', {'k': 'pre-{B}-{U}'}], 'n': 3}
        used = {'tasks': [], 'used_param': 'u-{A}', 'nested': nested}
        fmt = rng.choice(['json', 'yaml'])
        up = tmp / sub / f'used.{fmt}'
        up.write_text(json.dumps(used) if fmt == 'json' else yaml.safe_dump(used))
        ctx_file = tmp / sub / 'ctx.json'
        ctx_file.write_text(json.dumps({'ctx_file_param': 'cf-{A}-{NUM}'}))

        class PObj(AutoParameterObject):
            def __init__(self, path, items=None):
                self.path = path
                self.items = items

        globals()['PObj'] = PObj
        PObj.__module__ = __name__
        PObj.__qualname__ = 'PObj'

        class Probe(Task):
            class Meta:
                parameters = [Parameter('own'), Parameter('ctx_param'), Parameter('obj'), Parameter('lst'),
                              Parameter('ctx_file_param'), Parameter('pth', dtype=Path, default=None), Parameter('ctx_used_param', default=None),
                              Parameter('typed_s', dtype=str, default=None), Parameter('typed_l', dtype=list, default=None), Parameter('typed_d', dtype=dict, default=None)]

            def run(self, own, ctx_param, obj, lst, ctx_file_param, pth, ctx_used_param, typed_s, typed_l, typed_d) -> dict:
                return {'own': own, 'ctx_param': ctx_param, 'obj_path': obj.path, 'obj_items': obj.items, 'lst': lst,
                        'ctx_file_param': ctx_file_param, 'pth': [type(pth).__name__, str(pth)], 'ctx_used_param': ctx_used_param,
                        'typed_s': typed_s, 'typed_l': typed_l, 'typed_d': typed_d}

        class UsedProbe(Task):
            class Meta:
                parameters = [Parameter('used_param'), Parameter('nested')]

            def run(self, used_param, nested) -> dict:
                return {'used_param': used_param, 'nested': nested}

        class UsedObjProbe(Task):
            class Meta:
                parameters = [Parameter('uo_own'), Parameter('uo_ctx', default=None), Parameter('uo_nested', default=None)]

            def run(self, uo_own, uo_ctx, uo_nested) -> dict:
                return {'uo_own': uo_own, 'uo_ctx': uo_ctx, 'uo_nested': uo_nested}

        # a ready-made Config object in `uses` (prepared once on construction and again by the chain that uses it)
        # (not with a module as global_vars: the library deep-copies `uses` entries when it instantiates objects and python cannot copy modules;
        #  construction then fails loudly with TypeError, nothing is substituted wrongly)
        uses_object = rng.random() < 0.6 and as_object != 'module'
        uo_ns = rng.choice([None, 'nso'])
        used['tasks'] = []
        root_data = {
            'tasks': [Probe],
            'uses': ['{DIR}/used.' + fmt + (' as ns' if rng.random() < 0.5 else '')],
            'own': 'o-{A}/{NUM}/{U}',
            'human_readable_data_name': 'hr-{A}-{NUM}-{U}',      # a field with a meaning of its own to the library is config data like any other
            'pth': '{STORE}/models',
            'typed_s': '{DIR}/table-{A}.csv', 'typed_l': ['{A}', ['{B}']], 'typed_d': {'k': '{A}/{U}'},
            'lst': ['{A}', ['{B}{B}', 5, None], {'m': '{NUM}'}],
            'obj': {'class': f'{__name__}.PObj', 'kwargs': {'path': '{DIR}/f-{A}', 'items': ['{B}', {'z': '{A}'}]}},
        }
        ctx_kind = rng.choice(['dict', 'list'])
        ctx_dict = {'ctx_param': 'c-{A}-{U}'}
        # a context that pulls in another context file through a `uses` path holding a placeholder (one string or a list)
        ctx_uses = rng.choice([None, 'list', 'str'])
        if ctx_uses:
            (tmp / sub / 'ctx_used.json').write_text(json.dumps({'ctx_used_param': 'cu-{A}-{U}'}))
            ctx_dict['uses'] = ['{DIR}/ctx_used.json'] if ctx_uses == 'list' else '{DIR}/ctx_used.json'
        uo_in_ctx = uses_object and rng.random() < 0.7
        if uo_in_ctx:
            ctx_dict['uo_ctx'] = 'uoc-{A}-{U}'
            ctx_dict['uo_nested'] = {'l': ['{B}', {'d': '{DIR}/x'}], 'n': 1}
        context = ctx_dict if ctx_kind == 'dict' else [ctx_dict, str(ctx_file)]
        if ctx_kind == 'dict':
            root_data['ctx_file_param'] = 'cf-{A}-{NUM}'
        wit = {'vars': {k: repr(v) for k, v in vars_.items()}, 'as_object': as_object, 'context_uses': ctx_uses, 'root': {k: v for k, v in root_data.items() if k != 'tasks'},
               'ctx_kind': ctx_kind, 'fmt': fmt}
        def with_object(data):
            data = copy.deepcopy(data)
            if uses_object:
                uo_data = {'tasks': [UsedObjProbe], 'uo_own': 'uo-{A}-{NUM}'}
                if not uo_in_ctx:
                    uo_data['uo_ctx'] = 'plain-{B}'
                data['uses'] = data['uses'] + [Config(tmp / 'data', name='usedobj', data=uo_data, global_vars=gv, namespace=uo_ns)]
            return data
        wit['uses_object'] = [uses_object, uo_ns, uo_in_ctx]
        try:
            cfg = Config(tmp / 'data', name='root', data=with_object(root_data), global_vars=gv, context=context)
            # the used file declares no tasks itself; mount a task on it through a second config built from the file
            chain = cfg.chain()
        except Exception as e:
            res.violate(f'Config/Chain with a placeholder in the `uses` path could not be built: {type(e).__name__}: {e}', witness=wit)
            return
        res.count('config_cases')
        used_cfgs = [c for name, c in chain._configs.items() if 'used.' in name]
        if len(used_cfgs) != 1:
            res.violate(f'`uses` path with placeholder was not resolved to the used file: configs={list(chain._configs)}', witness=wit)
            return
        res.count('uses_path_substituted')
        ucfg = used_cfgs[0]
        exp_used = ref_sub('u-{A}', vars_)
        if str(ucfg['used_param']) != exp_used or str(ucfg['nested']['deep'][1]['k']) != ref_sub('pre-{B}-{U}', vars_):
            res.violate(f'values of the used config not substituted: {ucfg.data!r}', witness=wit)
        if repr(ucfg['used_param']) != repr('u-{A}'):
            res.violate(f'repr of substituted value in used config: {ucfg["used_param"]!r}', witness=wit)
        hr_ = cfg.data.get('human_readable_data_name')
        res.count('reserved_field_strings_checked')
        if str(hr_) != ref_sub('hr-{A}-{NUM}-{U}', vars_):
            res.violate(f'string in the config field human_readable_data_name is {str(hr_)!r} after construction, expected {ref_sub("hr-{A}-{NUM}-{U}", vars_)!r}', witness=wit)
        task = chain['probe']
        v = task.value
        exp = {
            'own': ref_sub('o-{A}/{NUM}/{U}', vars_), 'ctx_param': ref_sub('c-{A}-{U}', vars_),
            'obj_path': ref_sub('{DIR}/f-{A}', vars_), 'obj_items': [vars_['B'], {'z': vars_['A']}],
            'lst': [vars_['A'], [vars_['B'] * 2, 5, None], {'m': str(vars_['NUM'])}],
            'ctx_file_param': ref_sub('cf-{A}-{NUM}', vars_),
            'pth': ['PosixPath', str(Path(ref_sub('{STORE}/models', vars_)))],
            'ctx_used_param': ref_sub('cu-{A}-{U}', vars_) if ctx_uses else None,
            'typed_s': ref_sub('{DIR}/table-{A}.csv', vars_), 'typed_l': [vars_['A'], [vars_['B']]], 'typed_d': {'k': ref_sub('{A}/{U}', vars_)},
        }
        if ctx_uses:
            res.count('context_uses_paths_with_placeholder')
        got = json.loads(json.dumps(v))
        for k in exp:
            if got.get(k) != exp[k]:
                res.violate(f'task received {k}={got.get(k)!r}, expected substituted value {exp[k]!r}', witness=wit)
        if got.get('ctx_param') == exp['ctx_param'] and got.get('ctx_file_param') == exp['ctx_file_param']:
            res.count('context_values_substituted')
        if got.get('obj_path') == exp['obj_path'] and got.get('obj_items') == exp['obj_items']:
            res.count('object_args_substituted')
        if uses_object:
            uv = json.loads(json.dumps(chain[(uo_ns + '::' if uo_ns else '') + 'used_obj_probe'].value))
            exp_uo = {'uo_own': ref_sub('uo-{A}-{NUM}', vars_),
                      'uo_ctx': ref_sub('uoc-{A}-{U}', vars_) if uo_in_ctx else ref_sub('plain-{B}', vars_),
                      'uo_nested': {'l': [vars_['B'], {'d': ref_sub('{DIR}/x', vars_)}], 'n': 1} if uo_in_ctx else None}
            for k in exp_uo:
                if uv.get(k) != exp_uo[k]:
                    res.violate(f'task of a Config object in `uses` received {k}={uv.get(k)!r}, expected substituted value {exp_uo[k]!r}', witness=wit)
            res.count('config_object_uses_checked')
        # persistence representation keeps the placeholder form
        prm = task.params._parameters['own']
        if prm.value_repr() != "'o-{A}/{NUM}/{U}'":
            res.violate(f'parameter repr for persistence is {prm.value_repr()!r}, expected the placeholder form', witness=wit)
        for pn_, want_ in (('typed_s', "'{DIR}/table-{A}.csv'"), ('typed_l', "['{A}', ['{B}']]"), ('typed_d', "{'k': '{A}/{U}'}")):
            got_ = task.params._parameters[pn_].value_repr()
            res.count('typed_parameters_checked')
            if got_ != want_:
                res.violate(f'parameter {pn_} declared with a dtype: repr for persistence is {got_!r}, expected the placeholder form {want_!r}', witness=wit)
        pth_repr = task.params._parameters['pth'].value_repr()
        res.count('path_parameters_checked')
        if '{STORE}' not in pth_repr:
            res.violate(f'Path-typed parameter: repr for persistence is {pth_repr!r}, expected the placeholder form of {{STORE}}/models (STORE={vars_["STORE"]!r})', witness=wit)
        lst_repr = task.params._parameters['lst'].value_repr()
        if lst_repr != "['{A}', ['{B}{B}', 5, None], {'m': '{NUM}'}]":
            res.violate(f'nested parameter repr for persistence is {lst_repr!r}', witness=wit)
        obj_repr = task.params._parameters['obj'].value_repr()
        if vars_['A'] in obj_repr.replace('PObj', '') and '{A}' not in obj_repr:
            res.violate(f'parameter-object repr uses substituted text: {obj_repr!r}', witness=wit)
        # config copied: repr of values must survive (C11 last sentence)
        cc = copy.deepcopy(cfg) if as_object != 'module' else copy.copy(cfg)
        res.count('copies_checked')
        if repr(cc['own']) != repr(cfg['own']) or str(cc['own']) != str(cfg['own']):
            res.violate(f'after deepcopy of the Config the value `own` has repr {cc["own"]!r} (before: {cfg["own"]!r})',
                        mech='reprstr-copy-requote', witness=wit)
        if repr(cc['lst']) != repr(cfg['lst']):
            res.violate(f'after deepcopy of the Config the nested value has repr {cc["lst"]!r} (before: {cfg["lst"]!r})',
                        mech='reprstr-copy-requote', witness=wit)
        # a chain built from a *copied* config must address the same storage
        try:
            k1 = task.name_for_persistence
            cfg2 = Config(tmp / 'data', name='root', data=with_object(root_data), global_vars=gv, context=context)
            chain2 = (cfg2 if as_object == 'module' else copy.deepcopy(cfg2)).chain()      # python cannot copy module objects
            k2 = chain2['probe'].name_for_persistence
            if k1 != k2:
                res.violate(f'chain built from a deep-copied config uses another storage key ({k2} vs {k1}): representation did not survive the copy',
                            mech='reprstr-copy-requote', witness=wit)
        except Exception as e:
            res.violate(f'chain from deep-copied config failed: {type(e).__name__}: {e}', witness=wit)
        res.nt(jhash(['cfg', wit]))
    finally:
        globals().pop('PObj', None)
        shutil.rmtree(tmp, ignore_errors=True)


def exact_types(v):
    """structure with the exact type name of every string leaf (ReprStr vs str)"""
    if isinstance(v, dict):
        return {k: exact_types(x) for k, x in v.items()}
    if isinstance(v, list):
        return [exact_types(x) for x in v]
    return [type(v).__name__, v] if isinstance(v, str) else v


def check_context_reuse_case(rng, res: CaseResult):
    """one context object (dict or Context) given to two configs with different global_vars: each task gets ITS substitution, the caller's
    context keeps its placeholders (global entries and per-namespace entries, nested at depth >= 2)"""
    from taskchain import Config, Task
    from taskchain.config import Context
    from taskchain.parameter import Parameter
    tmp = Path(tempfile.mkdtemp(prefix='c11r-'))
    try:
        class CtxProbe(Task):
            class Meta:
                parameters = [Parameter('glob', default=None), Parameter('per_ns', default=None), Parameter('flat', default=None)]

            def run(self, glob, per_ns, flat) -> dict:
                return {'glob': glob, 'per_ns': per_ns, 'flat': flat}

        ns = rng.choice(['ns1', 'a::b', None])
        per_ns = {'deep': ['{A}/x', {'k': 'pre-{B}', 'l': [['{A}{A}']]}], 'n': 1}
        glob = ['{A}', {'m': ['{B}/{U}']}]
        ctx_data = {'glob': copy.deepcopy(glob)}
        if ns:
            ctx_data['for_namespaces'] = {ns: {'per_ns': copy.deepcopy(per_ns), 'flat': 'f-{A}'}}
        else:
            ctx_data['per_ns'] = copy.deepcopy(per_ns)
            ctx_data['flat'] = 'f-{A}'
        kind = rng.choice(['dict', 'Context', 'list'])
        ctx_obj = ctx_data if kind == 'dict' else (Context(data=ctx_data, name='reused') if kind == 'Context' else [ctx_data, {'other': 1}])
        before = exact_types(ctx_data)
        wit = {'namespace': ns, 'context_kind': kind, 'context': copy.deepcopy(ctx_data)}
        vars_list = [{'A': 'alpha', 'B': 'b1'}, {'A': '/mnt/beta', 'B': 'b2'}, {'A': 'alpha', 'B': 'b3'}]
        for i, vars_ in enumerate(vars_list[:rng.choice([2, 3])]):
            style = rng.choice(GV_STYLES)
            try:
                cfg = Config(tmp / f'd{i}', name='reuse', namespace=ns, data={'tasks': [CtxProbe]}, global_vars=make_gv(vars_, style), context=ctx_obj)
                v = json.loads(json.dumps(cfg.chain()[(ns + '::' if ns else '') + 'ctx_probe'].value))
            except Exception as e:
                res.violate(f'config #{i} over a reused context could not be built/evaluated: {type(e).__name__}: {e}', witness=wit)
                return
            exp = {'glob': json.loads(json.dumps(glob).replace('{A}', vars_['A']).replace('{B}', vars_['B'])),
                   'per_ns': json.loads(json.dumps(per_ns).replace('{A}', vars_['A']).replace('{B}', vars_['B'])),
                   'flat': 'f-' + vars_['A']}
            res.count('context_reuse_configs')
            for k in exp:
                if v.get(k) != exp[k]:
                    res.violate(f'config #{i} built from a context object that an earlier config had used: task received {k}={v.get(k)!r}, expected {exp[k]!r} '
                                f'(global_vars {vars_})', witness=wit)
            after = exact_types(ctx_data)
            if after != before:
                res.violate(f'the caller\'s context was modified by building config #{i} (placeholders substituted in place): {short_diff(before, after)}', witness=wit)
                return
        res.nt(jhash(['ctxreuse', wit]))
    finally:
        shutil.rmtree(tmp, ignore_errors=True)


def check_file_reuse_case(rng, res: CaseResult):
    """the SAME config file (unchanged on disk) loaded several times in one process with different global_vars: every Config gets its own substitution"""
    import yaml
    from taskchain import Config
    tmp = Path(tempfile.mkdtemp(prefix='c11f-'))
    try:
        body = {'tasks': [], 'flat': 'f-{A}', 'nested': {'deep': ['{A}/x', {'k': 'pre-{B}-{U}', 'l': [['{A}{A}']]}], 'n': 1}, 'lst': ['{B}', ['{A}']]}
        multi = rng.random() < 0.5
        data = {'configs': {'p1': dict(body, main_part=True), 'p2': dict(copy.deepcopy(body), flat='g-{B}')}} if multi else body
        fmt = rng.choice(['json', 'yaml'])
        fp = tmp / f'conf.{fmt}'
        fp.write_text(json.dumps(data) if fmt == 'json' else yaml.safe_dump(data))
        wit = {'file': data, 'format': fmt}
        cfgs = []
        for i, vars_ in enumerate([{'A': 'alpha', 'B': 'b1'}, {'A': '/mnt/beta', 'B': 'b2', 'U': 'now-defined'}, {'A': 'alpha', 'B': 'b3'}][:rng.choice([2, 3])]):
            part = rng.choice(['p1', 'p2']) if multi else None
            try:
                cfg = Config(tmp / 'd', str(fp) + (f'#{part}' if part and rng.random() < 0.5 else ''), global_vars=make_gv(vars_, rng.choice(GV_STYLES)),
                             **({'part': part} if part and False else {}))
            except Exception as e:
                res.violate(f'loading the config file a further time failed: {type(e).__name__}: {e}', witness=wit)
                return
            cfgs.append((cfg, vars_))
            res.count('file_reuse_configs')
            for c_, v_ in cfgs:
                got = json.loads(json.dumps({k: c_[k] for k in ('nested', 'lst')}))
                exp = {k: json.loads(ref_sub(json.dumps(body[k]), v_)) for k in ('nested', 'lst')}
                if got != exp:
                    res.violate(f'config #{cfgs.index((c_, v_))} of the same file (global_vars {v_}) holds {got!r} after {len(cfgs)} loads, expected {exp!r}', witness=wit)
                    return
        res.nt(jhash(['filereuse', wit, len(cfgs)]))
    finally:
        shutil.rmtree(tmp, ignore_errors=True)


def short_diff(a, b):
    return f'{json.dumps(a)[:200]} -> {json.dumps(b)[:200]}'


def run_case(case) -> CaseResult:
    res = CaseResult()
    rng = random.Random(case['seed'])
    if case['kind'] == 'trees':
        for i in range(case['n']):
            style = rng.choice(GV_STYLES)
            pool = NAMES
            if style in MAPPING_STYLES and rng.random() < 0.4:
                pool = NAMES + ODD_NAMES       # a mapping defines whatever keys it has: names need not be identifiers
                res.count('mappings_with_non_identifier_names')
            defined = rng.sample(pool, rng.randint(0, 4))
            vars_ = {n: rng.choice(['v', '', 'a/b', 7, 1.5, 'é{', 'plain', 'x' * 30, Path('/p/q'), None, True, '{B}', '<{A}>', '{Z}{Z}']) for n in defined}
            if rng.random() < 0.8:
                vars_ = {k: (v if not (isinstance(v, str) and '{' in v) else 'w') for k, v in vars_.items()}
            tree = gen_tree(rng, defined)
            if rng.random() < 0.1:
                tree = gen_string(rng, defined)
            check_tree(tree, vars_, style, res, rng)
            if i == 0:
                res.sample = {'tree': tree, 'vars': {k: repr(v) for k, v in vars_.items()}}
    else:
        for i in range(case['n']):
            check_config_case(rng, res)
            check_context_reuse_case(rng, res)
            check_file_reuse_case(rng, res)
        res.sample = {'kind': 'config', 'n': case['n']}
    return res


def cases(tier, seed):
    rng = random.Random(f'c11-{seed}')
    n = 120 if tier == 'quick' else 6000
    for i in range(n):
        yield {'kind': 'trees', 'n': 300, 'seed': rng.randrange(1 << 30)}
        if i % 3 == 0:
            yield {'kind': 'config', 'n': 6, 'seed': rng.randrange(1 << 30)}
