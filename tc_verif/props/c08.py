"""C08 — the dependency graph is exactly the declared one, and acyclic."""
from __future__ import annotations

import random

from ..core import CaseResult
from ..lab.build_cases import run_build_case

LEVEL = 'exploration'
RULE = ('case = generated pipeline (task classes with every input form: by class, name, group:name, ns::name, optional/absent, '
        'InputTaskParameter) x config tree (uses with/without namespaces to depth 3, same file mounted twice, multi-config parts, '
        'excluded tasks, abstract classes, confusable prefix/suffix names) built in a real process; 30% of cases get one injected '
        'declaration error (dangling input, self-loop, 2-/3-cycle). oracle = reference graph (names, input bindings by object identity, '
        'graph edges, required/dependent closures for all tasks; construction must fail for cyclic/dangling specs). non-trivial = '
        '>=3 tasks and >=1 edge, or an injected error; distinct = hash(modules, files, root, injection)')
REQUIRED = ['builds', 'valid_specs', 'tasks_built', 'edges_checked', 'closure_checks', 'expected_error_cycle', 'expected_error_missing_input',
            'errors_reported']
ASSUMPTIONS = ['semantics of declarations as in DESIGN.md Appendix A; any exception raised by construction counts as "fails with an error"',
               'two different classes with one group-qualified name, and namespace-qualified references that start with the declaring '
               'task\'s own namespace, are outside the generator (don\'t-care zones)']
BUDGET = {'quick': 60, 'thorough': 1200}
PROPS = {'C08'}
FEAT = {'contexts': False, 'global_vars': False, 'objects': False}


def run_case(case) -> CaseResult:
    res = CaseResult()
    rng = random.Random(case['seed'])
    for i in range(case['n']):
        inject = None
        r = rng.random()
        if r < 0.3:
            inject = rng.choice(['dangling', 'selfloop', 'cycle2', 'cycle3'])
        run_build_case(rng, res, PROPS, feat=dict(FEAT, **case.get('feat', {})), inject=inject, parameter_mode=case.get('parameter_mode', True))
        if len(res.violations) > 3:
            break
    return res


def cases(tier, seed):
    rng = random.Random(f'c08-{seed}')
    n = 150 if tier == 'quick' else 5000
    for i in range(n):
        yield {'n': 8, 'seed': rng.randrange(1 << 30), 'parameter_mode': (i % 6 != 5)}
