"""C08 — the dependency graph is exactly the declared one, and acyclic."""
from __future__ import annotations

import random

from ..core import CaseResult
from ..lab.build_cases import run_build_case

LEVEL = 'exploration'
RULE = ('case = generated pipeline (task classes with every input form: by class, name, group:name, ns::name, optional/absent, '
        'InputTaskParameter) x config tree (uses with/without namespaces to depth 3, same file mounted twice, multi-config parts, '
        'excluded tasks, abstract classes, confusable prefix/suffix names) built in a real process; 30% of cases get one injected '
        'declaration error (dangling input, self-loop, 2-/3-cycle). oracle = reference graph (names, input bindings by object identity, '
        'graph edges, required/dependent closures for all tasks; construction must fail for cyclic/dangling specs). non-trivial = '
        '>=3 tasks and >=1 edge, or an injected error; distinct = hash(modules, files, root, injection)')
REQUIRED = ['closure_sequences', 'redefined_declarations', 'builds', 'valid_specs', 'tasks_built', 'edges_checked', 'closure_checks', 'expected_error_cycle', 'expected_error_missing_input',
            'errors_reported']
ASSUMPTIONS = ['semantics of declarations as in DESIGN.md Appendix A; any exception raised by construction counts as "fails with an error"',
               'two different classes with one group-qualified name, and namespace-qualified references that start with the declaring '
               'task\'s own namespace, are outside the generator (don\'t-care zones)']
BUDGET = {'quick': 60, 'thorough': 1200}
PROPS = {'C08'}
FEAT = {'contexts': False, 'global_vars': False, 'objects': False, 'meta_inheritance_p': 0.35}


def redefine_after(lab, ref, spec, root, st, res, witness):
    """the task declarations are edited (an input removed) and defined again in the same interpreter: a chain built afterwards follows the NEW declarations"""
    import copy as _c
    import random as _r
    from ..lab.harness import session_problem
    from ..lab.oracle import compare_build
    from ..lab.ref import Ref
    rng = _r.Random(len(ref.tasks) * 7 + 1)
    spec2 = _c.deepcopy(spec)
    cands = [(m, t) for m in spec2['modules'] for t in m['tasks'] if not t.get('abstract') and not t.get('meta_base')
             and [i for i in t['inputs'] if i['form'] not in ('pattern', 'pattern_all') and i.get('access') != 'args' and not i.get('in_parameters')]
             and not any(u.get('meta_base') == t['cls'] for u in m['tasks'])]
    if not cands:
        return
    m, t = rng.choice(cands)
    drop = rng.choice([i for i in t['inputs'] if i['form'] not in ('pattern', 'pattern_all') and i.get('access') != 'args' and not i.get('in_parameters')])
    t['inputs'].remove(drop)
    t.pop('reads', None)
    for pos, inp in enumerate([i for i in t['inputs'] if not i.get('in_parameters')]):
        if inp.get('access') == 'index':
            inp['index'] = pos
    ref2 = Ref(spec2, root)
    if ref2.error is not None:
        return
    r = lab.run([{'op': 'build', 'chain': 'c', 'root': root}, {'op': 'redefine', 'spec': spec2}, {'op': 'build', 'chain': 'c2', 'root': root},
                 {'op': 'inspect', 'chain': 'c2', 'what': 'deps'}])
    if session_problem(r):
        res.inconclusive.append(session_problem(r))
        return
    o = r['steps']
    if not (o[0]['ok'] and o[1]['ok']):
        return
    res.count('redefined_declarations')
    for d in compare_build(ref2, o[2], True):
        if d['prop'] == 'C08':
            res.violate(f'after the declaration of {t["cls"]} was edited (input {drop.get("ref") or drop.get("ref_class")} removed) and defined again in the same '
                        f'interpreter: {d["what"]}', witness=dict(witness, redefined=t['cls']), facts={'tag': 'redefined_' + d['tag']})
            return


def seq_after(lab, ref, spec, root, st, res, witness):
    """closure queries repeated around include_self queries and force(): answers must stay the transitive closures"""
    import random as _r
    rng = _r.Random(len(ref.tasks))
    names = list(ref.tasks)
    r = lab.run([{'op': 'build', 'chain': 'c', 'root': root}, {'op': 'inspect', 'chain': 'c', 'what': 'deps_seq', 'force': rng.sample(names, min(2, len(names)))}])
    from ..lab.harness import session_problem
    if session_problem(r):
        res.inconclusive.append(session_problem(r))
        return
    o = r['steps'][1]
    if not o['ok']:
        res.violate(f'closure queries raised {o.get("exc")}: {o.get("msg")}', witness=witness, facts={'tag': 'closure_seq'})
        return
    res.count('closure_sequences')
    snap = r['steps'][0]['snapshot']['tasks']
    ident = {d['fullname']: d['id'] for d in snap.values()}
    for n in names:
        p1, p2, ws = o['plain1'][n], o['plain2'][n], o['with_self'][n]
        if p1 != p2:
            res.violate(f'required/dependent tasks of {n} changed after include_self queries / force: {p1} -> {p2}', witness=witness, facts={'tag': 'closure_seq'})
            return
        me = snap[n]['fullname']
        for k in (0, 1):
            if set(ident[x] for x in ws[k]) != set(ident[x] for x in p1[k]) | {snap[n]['id']}:
                res.violate(f'include_self closure of {n} is {ws[k]}, plain closure is {p1[k]}', witness=witness, facts={'tag': 'closure_seq'})
                return
        dep_on = {snap[m]['id'] for m in o['dependent_on'][n]}
        if dep_on - {snap[n]['id']} != {ident[x] for x in p1[1]} - {snap[n]['id']}:
            res.violate(f'is_task_dependent_on disagrees with dependent_tasks for {n}: {o["dependent_on"][n]} vs {p1[1]}', witness=witness, facts={'tag': 'closure_seq'})
            return


def run_case(case) -> CaseResult:
    res = CaseResult()
    rng = random.Random(case['seed'])
    if case.get('kind') == 'multi':
        # chains that share task objects (MultiChain): closures asked by task object in every member; only closure discrepancies are judged here
        from . import c13
        for i in range(case['n']):
            tmp = CaseResult()
            c13.run_multi_case(rng, tmp)
            res.count('multichain_member_closures_checked', tmp.counters.get('member_closures_checked', 0))
            res.inconclusive += tmp.inconclusive
            for v in tmp.violations:
                if (v.get('facts') or {}).get('tag') == 'member_closures':
                    res.violations.append(v)
        return res
    for i in range(case['n']):
        inject = None
        r = rng.random()
        if r < 0.3:
            inject = rng.choice(['dangling', 'selfloop', 'cycle2', 'cycle3', 'dangling_class'])
        run_build_case(rng, res, PROPS, feat=dict(FEAT, **case.get('feat', {})), inject=inject, parameter_mode=case.get('parameter_mode', True), name_mode_twins=True,
                       after=(seq_after if i % 3 == 0 else redefine_after if i % 3 == 1 else None) if case.get('parameter_mode', True) else None)
        if len(res.violations) > 3:
            break
    return res


def cases(tier, seed):
    rng = random.Random(f'c08-{seed}')
    n = 150 if tier == 'quick' else 5000
    for i in range(n):
        yield {'n': 8, 'seed': rng.randrange(1 << 30), 'parameter_mode': (i % 6 != 5)}
        if i % 5 == 2:
            yield {'kind': 'multi', 'n': 4, 'seed': rng.randrange(1 << 30)}
