"""C03 — different computations get different storage locations."""
from __future__ import annotations

import copy
import json
import random
import shutil
import tempfile
from pathlib import Path

from .. import refscheme
from ..core import CaseResult, jhash
from ..lab import spec as S
from ..lab.harness import Lab, session_problem
from ..lab.ref import Ref

LEVEL = 'exploration'
RULE = ('(i) value level: pairs (v1, v2) of JSON-like values / parameter objects that are unequal under recursive Python inequality (structural neighbours: '
        'insert/delete/wrap an element, move a boundary between adjacent strings, split strings vs lists, separators ###, $$$, =, quotes, brackets) are '
        'each given to a real one-parameter task; the two storage keys must differ. (ii) graph level: one parameter value (any nesting depth, or an '
        'argument of a parameter object) of one task of a generated pipeline is changed, or an input is rewired to another computation; every task in '
        '{U} U descendants(U) must move and no other task may. (iii) over everything observed in a case the map location -> computation descriptor must be '
        'a function. non-trivial = pair whose frozen-scheme texts differ in <= 3 characters or graph case with >=1 descendant; distinct = hash of the pair / case')
REQUIRED = ['long_value_pairs', 'object_value_pairs', 'default_elision_pairs', 'value_pairs', 'near_pairs', 'graph_cases', 'moved_tasks_checked', 'unmoved_tasks_checked', 'object_arg_mutations', 'rewirings', 'same_dir_cases', 'written_paths_checked',
            'locations_in_injectivity_check']
ASSUMPTIONS = ['pairs that Python considers equal (1 == 1.0 == True, -0.0 == 0.0) and NaN are not used',
               'known finding (open): strings are quoted without escaping in the key text, so values whose frozen 1.4.0 texts coincide and that contain a single '
               'quote in a string collide; every repair changes keys of existing results (C12)']
BUDGET = {'quick': 60, 'thorough': 1200}

ATOMS = ['a', 'b', 'ab', '', "'", '"', ', ', "', '", ': ', '###', '$$$', '=', 'p=', '[', ']', '{', '}', ' ', 'None', '1', 'True', "a', 'b", "x'###q='y", '\\', "\\'"]


def gen_leaf(rng):
    r = rng.random()
    if r < 0.55:
        return ''.join(rng.choice(ATOMS) for _ in range(rng.randint(0, 3)))
    if r < 0.75:
        return rng.choice([0, 1, 2, -1, 10, 12, 2 ** 40])
    if r < 0.85:
        return rng.choice([0.5, 1.5, 2.0, 1e-5, 10.0])
    return rng.choice([None, True, False])


def gen_val(rng, depth=0):
    r = rng.random()
    if depth < 3 and r < 0.25:
        return [gen_val(rng, depth + 1) for _ in range(rng.randint(0, 3))]
    if depth < 3 and r < 0.4:
        return {rng.choice(ATOMS[:8] + ['k', 'kk']) + str(i if rng.random() < 0.5 else ''): gen_val(rng, depth + 1) for i in range(rng.randint(0, 3))}
    return gen_leaf(rng)


def neighbours(rng, v):
    """structural neighbours of v (most are unequal to v)"""
    out = []
    if isinstance(v, list):
        out.append(v + [gen_leaf(rng)])
        if v:
            out.append(v[:-1])
            out.append([v])
            out.append(v[1:] + v[:1])
            i = rng.randrange(len(v))
            out.append(v[:i] + [n for n in neighbours(rng, v[i])[:1]] + v[i + 1:])
            if len(v) >= 2 and all(isinstance(x, str) for x in v[:2]):
                out.append([v[0] + "', '" + v[1]] + v[2:])        # ['a', 'b'] vs ["a', 'b"]
                out.append([v[0] + v[1]] + v[2:])
                out.append([v[0] + v[1][:1], v[1][1:]] + v[2:])    # move the boundary
        out.append(str(v))
    elif isinstance(v, dict):
        out.append({**v, 'zz': gen_leaf(rng)})
        if v:
            k = rng.choice(list(v))
            out.append({kk: x for kk, x in v.items() if kk != k})
            out.append({**v, k: (neighbours(rng, v[k]) or [0])[0]})
            out.append({(kk + 'x' if kk == k else kk): x for kk, x in v.items()})
            out.append(list(v.items()) and [list(v.keys()), list(v.values())])
        out.append(str(v))
    elif isinstance(v, str):
        out += [v + 'a', v[:-1], [v], v + ' ', v.upper() if v.upper() != v else v + 'A', "'" + v + "'", v + "'", v.replace('a', 'b', 1) if 'a' in v else v + 'b']
        if len(v) >= 2:
            out.append([v[:1], v[1:]])
            out.append(v[:1] + "', '" + v[1:])
        for lit in (None, True, 1, 1.5):
            if v == repr(lit):
                out.append(lit)
        try:
            out.append(json.loads(v))
        except Exception:
            pass
    elif isinstance(v, bool) or v is None:
        out += [str(v), not v if isinstance(v, bool) else 0, [v]]
    elif isinstance(v, (int, float)):
        out += [v + 1, str(v), -v if v else 7, [v], float(v) + 0.5]
    return out


def py_unequal(a, b):
    """recursive python inequality with the property's exclusions: no cross-type numeric equalities are used"""
    if type(a) is not type(b):
        if isinstance(a, (int, float, bool)) and isinstance(b, (int, float, bool)) and a == b:
            return None   # 1 / 1.0 / True: excluded pair
        if isinstance(a, (int, float, bool)) and isinstance(b, (int, float, bool)):
            return True
        return True
    if isinstance(a, list):
        if len(a) != len(b):
            return True
        rs = [py_unequal(x, y) for x, y in zip(a, b)]
        if any(r is None for r in rs) and not any(r is True for r in rs):
            return None
        return any(r is True for r in rs)
    if isinstance(a, dict):
        if set(a) != set(b):
            return True
        rs = [py_unequal(a[k], b[k]) for k in a]
        if any(r is None for r in rs) and not any(r is True for r in rs):
            return None
        return any(r is True for r in rs)
    if isinstance(a, float) and (a != a or b != b):
        return None
    return a != b


def has_quote(v):
    if isinstance(v, str):
        return "'" in v
    if isinstance(v, list):
        return any(has_quote(x) for x in v)
    if isinstance(v, dict):
        return any("'" in k or has_quote(x) for k, x in v.items())
    return False


def classify_collision(v1, v2):
    """known finding F10 only: the frozen 1.4.0 texts of the two values are identical AND a string in them contains a single quote"""
    try:
        same_text = refscheme.value_repr(v1) == refscheme.value_repr(v2)
    except Exception:
        same_text = False
    if same_text and (has_quote(v1) or has_quote(v2)):
        return 'unescaped-quote-collision'
    return None


_TASK = {}


def key_of(value, tmp, via='param', other=None):
    """storage key a real one-task chain derives for parameter value(s)"""
    from taskchain import Config, Task
    from taskchain.parameter import Parameter
    if 'T' not in _TASK:
        class ValueProbe(Task):
            class Meta:
                parameters = [Parameter('p'), Parameter('q', default=None, dont_persist_default_value=True)]

            def run(self) -> int:
                return 0
        _TASK['T'] = ValueProbe
    data = {'tasks': [_TASK['T']], 'p': copy.deepcopy(value)}
    if other is not None:
        data['q'] = copy.deepcopy(other)
    chain = Config(tmp, name='probe', data=data).chain()
    return chain['value_probe'].name_for_persistence


def key_with_default(default, value, tmp):
    """storage key of a one-task chain whose parameter `d` (dropped from the key when it has its default value) has the given default and value"""
    from taskchain import Config, Task
    from taskchain.parameter import Parameter
    ck = 'D' + json.dumps(default, sort_keys=True)
    if ck not in _TASK:
        class DefaultProbe(Task):
            class Meta:
                parameters = [Parameter('p', default=0), Parameter('d', default=copy.deepcopy(default), dont_persist_default_value=True)]

            def run(self) -> int:
                return 0
        _TASK[ck] = DefaultProbe
    chain = Config(tmp, name='probe', data={'tasks': [_TASK[ck]], 'd': copy.deepcopy(value)}).chain()
    return chain['default_probe'].name_for_persistence


WITNESS_PAIRS = [(['a', 'b'], ["a', 'b"]), ("x", "x"), ({'k': "v', 'k2': 'w"}, {'k': 'v', 'k2': 'w'})]


def run_value_pairs(rng, n, res: CaseResult, witness=False):
    tmp = Path(tempfile.mkdtemp(prefix='c03-'))
    try:
        pairs = []
        if witness:
            pairs += [(a, b, None) for a, b in WITNESS_PAIRS if a != b]
            # two-parameter witness of the same mechanism: p="x'###q='y" vs p='x', q='y'
            pairs.append((("x'###q='y", None), ('x', 'y'), 'two'))
        while len(pairs) < n:
            v = gen_val(rng)
            for w in neighbours(rng, v):
                pairs.append((v, w, None))
            if rng.random() < 0.3:
                pairs.append((gen_val(rng), gen_val(rng), None))
            if rng.random() < 0.08:
                # long values that agree on a long prefix of their text and differ late / deep
                n_ = rng.choice([60, 150, 400])
                base = [rng.randrange(1000) for _ in range(n_)]
                pairs.append((base, base[:-1] + [base[-1] + 1], None))
                pairs.append(('x' * n_ + 'a', 'x' * n_ + 'b', None))
                pairs.append(({'k': [base, {'deep': base}]}, {'k': [base, {'deep': base[:-1] + [-1]}]}, None))
                pairs.append(({'class': 'tc_verif.lab.runtime.LabObj', 'kwargs': {'a': base}}, {'class': 'tc_verif.lab.runtime.LabObj', 'kwargs': {'a': base[:-1] + [0.5]}}, None))
                res.count('long_value_pairs', 4)
            if rng.random() < 0.1:
                # a parameter that is left out of the key when it has its default value: only the default itself may be left out
                dflt = rng.choice([[gen_leaf(rng) for _ in range(rng.randint(1, 4))], {'k': gen_leaf(rng), 'j': [1, 2]}, 'abc', 3, [[1, 2], [3]]])
                vals = []
                if isinstance(dflt, list):
                    vals += [dflt[:k] for k in range(len(dflt))] + [dflt + [gen_leaf(rng)], dflt + dflt, [dflt], dflt[::-1]]
                elif isinstance(dflt, dict):
                    vals += [{'k': dflt['k']}, {**dflt, 'z': 0}, {}, list(dflt)]
                elif isinstance(dflt, str):
                    vals += [dflt[:-1], dflt + 'd', '', [dflt], list(dflt)]
                else:
                    vals += [dflt + 1, str(dflt), [dflt], None]
                for v in vals:
                    if py_unequal(v, dflt) is True:
                        pairs.append(((dflt, dflt), (dflt, v), 'dflt'))
                        res.count('default_elision_pairs')
            if rng.random() < 0.1:
                # parameter objects: every constructor argument that is not declared ignorable distinguishes; a subclass that adds constructor
                # arguments next to an instance of its parent class (the parent's representation is computed first)
                O, OS = 'tc_verif.lab.runtime.LabObj', 'tc_verif.lab.runtime.LabObjSub'
                x = gen_leaf(rng)
                l1, l2 = rng.sample([10, 11, 12, 'z', None, [1]], 2)
                parent = {'class': O, 'kwargs': {'a': x}}
                s1, s2 = {'class': OS, 'kwargs': {'a': x, 'limit': l1}}, {'class': OS, 'kwargs': {'a': x, 'limit': l2}}
                pairs.append(([parent, s1], [parent, s2], 'obj'))
                pairs.append(({'m': [parent, {'deep': [s1]}]}, {'m': [parent, {'deep': [s2]}]}, 'obj'))
                pairs.append((s1, s2, 'obj'))
                pairs.append((parent, {'class': OS, 'kwargs': {'a': x}}, 'obj'))
                pairs.append(({'class': O, 'kwargs': {'a': x, 'b': 3}}, {'class': O, 'kwargs': {'a': x, 'b': 4}}, 'obj'))
                pairs.append(({'class': OS, 'kwargs': {'a': x, 'b': 'z', 'limit': l1}}, {'class': OS, 'kwargs': {'a': x, 'b': 4, 'limit': l1}}, 'obj'))
                # order of list items inside constructor arguments (top level, inside a mapping, lists of nested objects)
                P = 'tc_verif.lab.runtime.LabObjPlain'
                items = rng.sample(['double', 'inc', 'zz', 'a', 'b', 'c'], 3)
                perm = items[1:] + items[:1]
                pairs.append(({'class': O, 'kwargs': {'a': items}}, {'class': O, 'kwargs': {'a': perm}}, 'obj'))
                pairs.append(({'class': O, 'kwargs': {'a': {'steps': items, 'n': 1}}}, {'class': O, 'kwargs': {'a': {'steps': items[::-1], 'n': 1}}}, 'obj'))
                n1, n2 = {'class': P, 'kwargs': {'x': 1}}, {'class': P, 'kwargs': {'x': 2}}
                pairs.append(({'class': O, 'kwargs': {'a': [n1, n2]}}, {'class': O, 'kwargs': {'a': [n2, n1]}}, 'obj'))
                pairs.append(({'class': OS, 'kwargs': {'a': 1, 'limit': [3, 1, 2]}}, {'class': OS, 'kwargs': {'a': 1, 'limit': [1, 2, 3]}}, 'obj'))
                # falsy but different values of a constructor argument (the object keeps `b` only as a private attribute)
                f1, f2 = rng.sample([0, '', None, [], {}], 2)
                pairs.append(({'class': O, 'kwargs': {'a': x, 'b': f1}}, {'class': O, 'kwargs': {'a': x, 'b': f2}}, 'obj'))
                pairs.append(({'class': O, 'kwargs': {'a': [{'class': O, 'kwargs': {'a': 1, 'b': f1}}]}}, {'class': O, 'kwargs': {'a': [{'class': O, 'kwargs': {'a': 1, 'b': f2}}]}}, 'obj'))
                pairs.append(({'class': OS, 'kwargs': {'a': f1, 'limit': f2}}, {'class': OS, 'kwargs': {'a': f2, 'limit': f1}}, 'obj'))
                pairs.append(({'class': O, 'kwargs': {'a': x, 'b': 3}}, {'class': O, 'kwargs': {'a': x, 'b': '3'}}, 'obj'))     # (b=3 is the default, left out of the text)
                pairs.append(({'class': O, 'kwargs': {'a': [{'class': O, 'kwargs': {'a': 1}}]}}, {'class': O, 'kwargs': {'a': [{'class': O, 'kwargs': {'a': 1, 'b': '3'}}]}}, 'obj'))
                # sibling classes that inherit their constructor from a common base, built with equal arguments
                A_, M_ = 'tc_verif.lab.runtime.LabOpAdd', 'tc_verif.lab.runtime.LabOpMul'
                amt = rng.choice([3, 'x', [1, 2]])
                pairs.append(({'class': A_, 'kwargs': {'amount': amt}}, {'class': M_, 'kwargs': {'amount': amt}}, 'obj'))
                pairs.append(([{'class': A_, 'kwargs': {'amount': amt, 'unit': 'm'}}], [{'class': M_, 'kwargs': {'amount': amt, 'unit': 'm'}}], 'obj'))
                res.count('object_value_pairs', 17)
                res.count('falsy_object_argument_pairs', 3)
        for a, b, mode in pairs[:n + 24]:
            if mode == 'dflt':
                try:
                    k1, k2 = key_with_default(a[0], a[1], tmp), key_with_default(b[0], b[1], tmp)
                except Exception as e:
                    res.inconclusive.append(f'default probe failed for {b!r}: {type(e).__name__}: {e}')
                    continue
                res.count('value_pairs')
                if k1 == k2:
                    res.violate(f'parameter with default {a[0]!r} (not persisted when it has the default value): the unequal value {b[1]!r} gets the same storage key {k1} as the default',
                                witness={'default': a[0], 'value': b[1]}, facts={'tag': 'default_elision'})
                continue
            if mode == 'two':
                k1, k2 = key_of(a[0], tmp, other=a[1]), key_of(b[0], tmp, other=b[1])
                res.count('value_pairs')
                if k1 == k2:
                    res.violate(f'parameters p={a[0]!r} and p={b[0]!r}, q={b[1]!r} get the same storage key {k1}', mech='unescaped-quote-collision',
                                witness={'a': a, 'b': b})
                continue
            ne = True if mode == 'obj' else py_unequal(a, b)
            if ne is not True:
                res.count('equal_or_excluded_pairs')
                continue
            try:
                k1, k2 = key_of(a, tmp), key_of(b, tmp)
            except Exception as e:
                res.inconclusive.append(f'probe chain failed for {a!r}/{b!r}: {type(e).__name__}: {e}')
                continue
            res.count('value_pairs')
            try:
                t1, t2 = refscheme.value_repr(a), refscheme.value_repr(b)
                near = sum(1 for x, y in zip(t1, t2) if x != y) + abs(len(t1) - len(t2)) <= 3
            except Exception:
                near = False
            if near:
                res.count('near_pairs')
                res.nt(jhash([a, b]))
            if k1 == k2:
                res.violate(f'unequal parameter values {a!r} and {b!r} get the same storage key {k1}', mech=classify_collision(a, b),
                            witness={'a': a, 'b': b}, facts={'tag': 'value_collision'})
        if res.sample is None:
            res.sample = {'pairs': [[a, b] for a, b, _ in pairs[4:9]]}
    finally:
        shutil.rmtree(tmp, ignore_errors=True)


# ---- graph level ---------------------------------------------------------------------------------------------------------

def mutate_deep(rng, v):
    """change v at a random nesting depth into an unequal value of similar shape"""
    if isinstance(v, list) and v and rng.random() < 0.6:
        i = rng.randrange(len(v))
        return v[:i] + [mutate_deep(rng, v[i])] + v[i + 1:]
    if isinstance(v, dict) and 'class' in v:
        kw = dict(v.get('kwargs', {}))
        keys = [k for k in kw if k != 'verbose'] or ['a']
        if v['class'].endswith('LabObjSub'):
            keys += ['limit', 'limit']
        k = rng.choice(keys)
        kw[k] = mutate_deep(rng, kw.get(k, 10 if k == 'limit' else 0))
        if k == 'b' and kw[k] == 3:
            kw[k] = 4
        if k == 'limit' and kw[k] == v.get('kwargs', {}).get('limit', 10):
            kw[k] = 11 if kw[k] != 11 else 12
        return {**v, 'kwargs': kw}
    if isinstance(v, dict) and v and rng.random() < 0.6:
        k = rng.choice(list(v))
        return {**v, k: mutate_deep(rng, v[k])}
    return S.same_type_value(rng, v) if v is not None else 'was-none'


def run_graph_case(rng, res: CaseResult):
    spec = S.gen_spec(rng, {'adversarial_strings': False})
    root = S.gen_root(rng, spec)
    ref = Ref(spec, root)
    if ref.error is not None or len(ref.tasks) < 2:
        res.count('generator_rejects')
        return
    spec2 = copy.deepcopy(spec)
    # choose task U and one persisted parameter of it that is configured in its instance's file
    cands = []
    for n, t in ref.tasks.items():
        for pn, v in t['persisted'].items():
            p = next(p for p in t['spec']['params'] if p['name'] == pn)
            nic = p.get('name_in_config') or pn
            pd = spec2['files'][t['inst']['file']]['parts'][t['inst']['part'] or '']
            if nic in pd.get('values', {}) and not (isinstance(v, tuple)):
                cands.append((n, pn, nic, t))
    if not cands:
        res.count('generator_rejects')
        return
    n, pn, nic, t = rng.choice(cands)
    pd = spec2['files'][t['inst']['file']]['parts'][t['inst']['part'] or '']
    old = pd['values'][nic]
    new = mutate_deep(rng, old)
    if py_unequal(json.loads(json.dumps(old)), json.loads(json.dumps(new))) is not True:
        res.count('generator_rejects')
        return
    pd['values'][nic] = new
    ref2 = Ref(spec2, root)
    if ref2.error is not None or set(ref2.tasks) != set(ref.tasks):
        res.count('generator_rejects')
        return
    if isinstance(old, dict) and 'class' in old:
        res.count('object_arg_mutations')
    moved_expected = {m for m in ref.tasks if ref.tasks[m]['descriptor'] != ref2.tasks[m]['descriptor']}
    steps = [{'op': 'build', 'chain': 'c', 'root': root}]
    with Lab(spec) as lab1, Lab(spec2) as lab2:
        r1, r2 = lab1.run(steps), lab2.run(steps)
    for r in (r1, r2):
        if session_problem(r):
            res.inconclusive.append(session_problem(r))
            return
    o1, o2 = r1['steps'][0], r2['steps'][0]
    witness = {'spec': spec, 'root': root, 'changed': {'file': t['inst']['file'], 'key': nic, 'old': old, 'new': new, 'task': n}}
    if not (o1['ok'] and o2['ok']):
        res.count('build_failed_not_judged_here')
        return
    res.count('graph_cases')
    s1, s2 = o1['snapshot']['tasks'], o2['snapshot']['tasks']
    for m in ref.tasks:
        if ref.tasks[m]['spec']['data_kind'] == 'memory':
            loc1, loc2 = s1[m]['key'], s2[m]['key']
        else:
            loc1, loc2 = s1[m]['rel_path'], s2[m]['rel_path']
        if m in moved_expected:
            res.count('moved_tasks_checked')
            if loc1 == loc2:
                res.violate(f'{m}: parameter {nic} of {n} changed from {old!r} to {new!r} (this task is {"it" if m == n else "downstream of it"}) but the storage '
                            f'location stayed {loc1}', mech=classify_collision(old, new) if not isinstance(old, dict) or 'class' not in old else None,
                            witness=witness, facts={'tag': 'not_moved'})
        else:
            res.count('unmoved_tasks_checked')
            if loc1 != loc2:
                res.violate(f'{m}: neither its parameters nor its upstream changed but its location moved from {loc1} to {loc2}', witness=witness,
                            facts={'tag': 'moved_without_reason', 'prop': 'C02'})
    # (iii) location -> descriptor is a function over both chains
    loc2desc = {}
    for refx, snap in ((ref, s1), (ref2, s2)):
        for m, tt in refx.tasks.items():
            loc = (tt['slug'], snap[m]['key'])
            res.count('locations_in_injectivity_check')
            if loc in loc2desc and loc2desc[loc] != tt['descriptor']:
                res.violate(f'two different computations of {tt["slug"]} share the storage key {snap[m]["key"]}', witness=witness, facts={'tag': 'not_injective'})
            loc2desc[loc] = tt['descriptor']
    if len(moved_expected) > 1:
        res.nt(jhash([spec['files'], root, witness['changed']]))


def run_same_dir_case(rng, res: CaseResult):
    """two configurations with the SAME config name (the second overrides one parameter through a context) over ONE data directory in which the
    first one's results exist and were given readable names (symbolic links): locations are compared after resolving links"""
    spec = S.gen_spec(rng, {'adversarial_strings': False})
    root = S.gen_root(rng, spec)
    ref = Ref(spec, root)
    if ref.error is not None or len(ref.tasks) < 2:
        res.count('generator_rejects')
        return
    cands = []
    for n, t in ref.tasks.items():
        for pn, v in t['persisted'].items():
            p = next(p for p in t['spec']['params'] if p['name'] == pn)
            nic = p.get('name_in_config') or pn
            if not isinstance(v, tuple) and not (isinstance(v, dict) and 'class' in v):
                cands.append((n, pn, nic, t, v))
    if not cands:
        res.count('generator_rejects')
        return
    n, pn, nic, t, old = rng.choice(cands)
    new = mutate_deep(rng, old)
    if py_unequal(json.loads(json.dumps(old)), json.loads(json.dumps(new))) is not True:
        res.count('generator_rejects')
        return
    root2 = copy.deepcopy(root)
    ns = '::'.join(t['inst']['ns'])
    data = {'for_namespaces': {ns: {nic: new}}} if ns else {nic: new}
    root2['context'] = list(root2.get('context') or []) + [{'kind': 'dict', 'data': data}]
    root2['context_single'] = len(root2['context']) == 1
    ref2 = Ref(spec, root2)
    if ref2.error is not None or set(ref2.tasks) != set(ref.tasks):
        res.count('generator_rejects')
        return
    moved_expected = {m for m in ref.tasks if ref.tasks[m]['descriptor'] != ref2.tasks[m]['descriptor']}
    if n not in moved_expected:
        res.count('generator_rejects')
        return
    names = list(ref.tasks)
    steps = [{'op': 'build', 'chain': 'c1', 'root': root}] + [{'op': 'value', 'chain': 'c1', 'task': m} for m in names] + \
            [{'op': 'inspect', 'chain': 'c1', 'what': 'readable'}, {'op': 'snapshot', 'chain': 'c1'}, {'op': 'build', 'chain': 'c2', 'root': root2}]
    with Lab(spec) as lab:
        r = lab.run(steps)
    if session_problem(r):
        res.inconclusive.append(session_problem(r))
        return
    st = r['steps']
    if not all(o['ok'] for o in st):
        res.count('build_failed_not_judged_here')
        return
    res.count('same_dir_cases')
    # every file or directory a computation creates or writes (result, scratch, run info, log, work / error directories) carries ITS key in its name:
    # two different computations of one task must not meet in a shared scratch name either
    allowed = {refscheme.rel_dir(t_['slug']) + '/' + t_['key'] for t_ in ref.tasks.values()}
    keyed = {(refscheme.rel_dir(t_['slug']) + '/', t_['key']) for t_ in ref.tasks.values()}

    def carries_key(p_):
        # `<task dir>/<name>...` where <name> starts with the key, or is a hidden scratch name holding the key (`.<key>.tmp.json`)
        if any(p_.startswith(a_) or a_.startswith(p_ + '/') for a_ in allowed):
            return True
        return any(p_.startswith(d_) and k_ in p_[len(d_):].split('/')[0] for d_, k_ in keyed)
    for o_ in st[1:1 + len(names)]:
        for ev, path in o_.get('fs', []):
            if ev not in ('open_w', 'os.mkdir', 'os.rename', 'os.replace', 'shutil.move'):
                continue
            for p_ in path.split(' -> '):
                res.count('written_paths_checked')
                if not carries_key(p_):
                    res.violate(f'while computing {o_.get("task")}: `{ev} {path}` touches a name in the data directory that does not carry the key of any computation '
                                f'of this chain (a scratch name shared between different computations of a task)', witness={'spec': spec, 'root': root},
                                facts={'tag': 'shared_scratch_name'})
                    break
    s1, s2 = st[-2]['snapshot']['tasks'], st[-1]['snapshot']['tasks']
    witness = {'spec': spec, 'root': root, 'second_root_context': data, 'task': n}
    for m in ref.tasks:
        if ref.tasks[m]['spec']['data_kind'] == 'memory':
            continue
        l1, l2 = s1[m].get('real_rel_path'), s2[m].get('real_rel_path')
        if m in moved_expected:
            res.count('moved_tasks_checked')
            if l1 == l2:
                res.violate(f'{m}: with {nic} of {n} overridden from {old!r} to {new!r} by a context (same config name, same data directory, results of the first '
                            f'configuration stored and linked under readable names) the task still resolves to the first configuration\'s file {l1} '
                            f'(data_path {s2[m]["rel_path"]})', witness=witness, facts={'tag': 'not_moved_same_dir'})
        else:
            res.count('unmoved_tasks_checked')
    if len(moved_expected) > 1:
        res.nt(jhash([spec['files'], root, data]))


def run_rewire_case(rng, res: CaseResult):
    """same task, one input bound to another computation of the same name (other mount) -> location must differ"""
    spec, roots = S.twin_spec(rng)
    swapped = [r for r in roots if r.get('context') and len(r['context'][0]['data'].get('for_namespaces', {})) == 2]
    pair = []
    for r in swapped:
        fn = r['context'][0]['data']['for_namespaces']
        vals = list(fn.values())
        if vals[0] != vals[1]:
            pair.append(r)
    if len(pair) < 2:
        res.count('generator_rejects')
        return
    ra, rb = pair[0], pair[1]
    refa, refb = Ref(spec, ra), Ref(spec, rb)
    with Lab(spec) as lab:
        r = lab.run([{'op': 'build', 'chain': 'a', 'root': ra}, {'op': 'build', 'chain': 'b', 'root': rb}])
    if session_problem(r):
        res.inconclusive.append(session_problem(r))
        return
    oa, ob = r['steps']
    if not (oa['ok'] and ob['ok']):
        return
    res.count('rewirings')
    witness = {'spec': spec, 'roots': [ra, rb]}
    for m in refa.tasks:
        da, db = refa.tasks[m]['descriptor'], refb.tasks[m]['descriptor']
        ka, kb = oa['snapshot']['tasks'][m]['key'], ob['snapshot']['tasks'][m]['key']
        if da != db and ka == kb:
            res.violate(f'{m}: its inputs are wired to different computations in the two configs (values of the two mounts swapped) but the storage key is {ka} in both',
                        witness=witness, facts={'tag': 'rewire_collision'})
        if da == db and ka != kb:
            res.violate(f'{m}: same computation in both configs but keys differ {ka} / {kb}', witness=witness, facts={'tag': 'moved_without_reason', 'prop': 'C02'})
    res.nt(jhash([spec['files'], ra, rb]))


def run_env_case(rng, res: CaseResult):
    """one configuration computed by two processes whose environments differ (HOME, current directory): they use one storage location, so what the
    task RECEIVES must be the same in both (otherwise two different computations share a location)"""
    pkg = 'labe_' + ''.join(rng.choice('abcdefgh') for _ in range(8))
    pval = rng.choice(['~/store/x', '~', 'rel/dir', '~user/x', './x', '../up'])
    t = {'cls': 'Reader', 'data_kind': 'json_dict', 'params': [{'name': 'src', 'dtype': 'Path', 'access': rng.choice(['args', None])}, {'name': 'mode', 'default': 'r'}], 'inputs': []}
    spec = {'pkg': pkg, 'modules': [{'name': 'm', 'package': None, 'tasks': [t]}],
            'files': {'cfg/c.json': {'parts': {'': {'tasks': [f'{pkg}.m.*'], 'values': {'src': pval}, 'uses': []}}}},
            'context_files': {}, 'fnames': ['cfg/c.json'], 'free_ns_words': ['n'], 'placeholders': None}
    root = {'file': 'cfg/c.json'}
    seen = []
    with Lab(spec) as lab:
        for i, env in enumerate(({'HOME': str(lab.root / 'home_alice')}, {'HOME': str(lab.root / 'home_bob')})):
            (lab.root / f'home_{"alice" if i == 0 else "bob"}').mkdir(exist_ok=True)
            r = lab.run([{'op': 'build', 'chain': 'c', 'root': root}, {'op': 'value', 'chain': 'c', 'task': 'reader'}, {'op': 'snapshot', 'chain': 'c'}],
                        data_dir=lab.root / f'data{i}', env_extra=env)
            if session_problem(r) or not all(o['ok'] for o in r['steps']):
                res.inconclusive.append(session_problem(r) or f'environment case failed: {[o.get("msg") for o in r["steps"] if not o["ok"]][:1]}')
                return
            run = next(x for x in r['steps'][1]['runs'] if x['phase'] == 'start')
            seen.append((r['steps'][2]['snapshot']['tasks']['reader'].get('real_rel_path'), run['received'], env))
    res.count('environment_pairs_checked')
    (l1, rec1, e1), (l2, rec2, e2) = seen
    if l1 == l2 and rec1 != rec2:
        res.violate(f'the task of one configuration (src={pval!r}) receives {rec1} in a process with {e1} and {rec2} in a process with {e2}, '
                    f'but both use the storage location {l1}: two different computations share a location', witness={'spec': spec, 'envs': [e1, e2]},
                    facts={'tag': 'environment_dependent_value'})


def run_case(case) -> CaseResult:
    res = CaseResult()
    rng = random.Random(case['seed'])
    if case['kind'] == 'env':
        for _ in range(case['n']):
            run_env_case(rng, res)
        return res
    if case['kind'] == 'values':
        run_value_pairs(rng, case['n'], res, witness=case.get('witness', False))
    elif case['kind'] == 'graph':
        for _ in range(case['n']):
            run_graph_case(rng, res)
            if res.sample is None and res.violations == []:
                res.sample = {'kind': 'graph'}
    elif case['kind'] == 'same_dir':
        for _ in range(case['n']):
            run_same_dir_case(rng, res)
    else:
        for _ in range(case['n']):
            run_rewire_case(rng, res)
    return res


def cases(tier, seed):
    rng = random.Random(f'c03-{seed}')
    yield {'kind': 'values', 'n': 150, 'seed': 1, 'witness': True}
    nv = 100 if tier == 'quick' else 5000
    ng = 100 if tier == 'quick' else 2500
    for i in range(max(nv, ng)):
        if i < nv:
            yield {'kind': 'values', 'n': 220, 'seed': rng.randrange(1 << 30)}
        if i < ng:
            yield {'kind': 'graph', 'n': 4, 'seed': rng.randrange(1 << 30)}
        if i % 4 == 0:
            yield {'kind': 'rewire', 'n': 3, 'seed': rng.randrange(1 << 30)}
        if i % 4 == 1 and i < ng:
            yield {'kind': 'same_dir', 'n': 3, 'seed': rng.randrange(1 << 30)}
        if i % 25 == 3 and i < ng:
            yield {'kind': 'env', 'n': 2, 'seed': rng.randrange(1 << 30)}
