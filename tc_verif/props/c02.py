"""C02 — storage location depends only on what goes into the computation."""
from __future__ import annotations

import json
import random

from ..core import CaseResult, jhash
from ..lab import rewrite as RW
from ..lab import spec as S
from ..lab.harness import Lab, session_problem
from ..lab.ref import Ref

LEVEL = 'exploration'
RULE = ('case = generated configuration S and a rewriting S\' composed of 1-4 computation-preserving steps (rename/move config files and switch JSON/YAML; '
        'mount the whole pipeline under a namespace path of depth 1-3 by root namespace or wrapper config; permute tasks, uses, config keys and mapping keys at '
        'every depth incl. inside object definitions; module variants with permuted parameter order, an extra ignored parameter with an arbitrary value, an extra '
        'default-valued dont_persist parameter, an extra absent optional input; move a value from the config file into the context entry of the exact namespace; '
        'other global_vars values behind placeholders), S\' built in a freshly spawned interpreter with another PYTHONHASHSEED in half of the cases. The '
        'rewriting is first validated on the reference model (equal computation descriptors for corresponding tasks). oracle: data_path relative to the data '
        'dir (name_for_persistence for in-memory tasks) of corresponding tasks must be equal; over both chains descriptor -> location must be a function. '
        'non-trivial = pair with >=2 applied rewriting kinds or crossing interpreters; distinct = hash(S files, root, applied rewritings)')
REQUIRED = ['pairs', 'tasks_compared', 'rw_rename', 'rw_wrap', 'rw_permute', 'rw_module', 'rw_to_context', 'rw_global_vars', 'rw_objects', 'cross_interpreter_pairs',
            'set_object_pairs']
ASSUMPTIONS = ['equality of parameter values is Python == on JSON-like values (1 is never rewritten to 1.0 or True)',
               'name mode is out of scope (the documentation itself says config names matter there)']
BUDGET = {'quick': 75, 'thorough': 1500}
KINDS = ['rename', 'wrap', 'permute', 'module', 'to_context', 'global_vars', 'objects', 'share', 'share']


def classify(ref, name, desc_list):
    return None


def loc_of(d, kind):
    return d['key'] if kind == 'memory' else d['rel_path']


def run_pair(rng, res: CaseResult, set_objects=False, witness_kind=None):
    feat = {'set_objects': set_objects, 'objects': True}
    spec = S.gen_spec(rng, feat)
    root = S.gen_root(rng, spec, feat)
    ref = Ref(spec, root)
    if ref.error is not None or not ref.tasks:
        res.count('generator_rejects')
        return
    kinds = rng.sample(KINDS, rng.randint(1, 4))
    if witness_kind:
        kinds = witness_kind
    inside = True
    out = RW.compose(rng, spec, root, kinds, permute_inside_objects=inside)
    if out is None:
        res.count('generator_rejects')
        return
    spec2, root2, name_map, descs, applied = out
    ref2 = Ref(spec2, root2)
    # validate the rewriting on the reference model: corresponding tasks must be the same computation
    for a, b in name_map.items():
        if ref.tasks[a]['descriptor'] != ref2.tasks[b]['descriptor']:
            res.count('rewriting_unsound_skipped')
            return
    compare_pair(rng, res, spec, root, spec2, root2, name_map, descs, applied, rng.random() < 0.5)


def compare_pair(rng, res, spec, root, spec2, root2, name_map, descs, applied, spawn, hashseeds=None):
    ref, ref2 = Ref(spec, root), Ref(spec2, root2)
    steps1 = [{'op': 'build', 'chain': 'c', 'root': root}]
    steps2 = [{'op': 'build', 'chain': 'c', 'root': root2}]
    warm = rng.random() < 0.5
    if warm:
        # what the process did BEFORE building the chain is not part of the computation: representations of parameter objects of related classes
        # (parent classes first) were already computed by other code of the same interpreter
        steps2 = [{'op': 'warm_reprs'}] + steps2
        res.count('pairs_with_earlier_use_of_object_classes')
    if rng.random() < 0.3:
        # ... and an earlier chain of the same configuration whose tasks modified their (mutable) parameter values in place
        steps2 = steps2[:-1] + [{'op': 'build', 'chain': 'pre', 'root': root2}, {'op': 'poison_params', 'chain': 'pre'}] + steps2[-1:]
        res.count('pairs_after_an_earlier_chain_modified_its_parameter_values')
    hs = hashseeds or (rng.randrange(1, 10 ** 6), rng.randrange(1, 10 ** 6))
    with Lab(spec) as lab1, Lab(spec2) as lab2:
        r1 = lab1.run(steps1, spawn=spawn, hashseed=hs[0] if spawn else None)
        r2 = lab2.run(steps2, spawn=spawn, hashseed=hs[1])
    for r in (r1, r2):
        if session_problem(r):
            res.inconclusive.append(session_problem(r))
            return
    o1, o2 = r1['steps'][0], r2['steps'][-1]
    witness = {'spec': spec, 'root': root, 'spec2': spec2, 'root2': root2, 'rewritings': descs, 'spawned': spawn}
    if not o1['ok']:
        res.count('original_failed_to_build_not_judged_here')
        return
    if not o2['ok']:
        res.violate(f'rewritten configuration ({"; ".join(descs)}) failed to build: {o2.get("exc")}: {o2.get("msg")}', witness=witness,
                    facts={'tag': 'rewritten_build_failed'})
        return
    res.count('pairs')
    for k in applied:
        res.count('rw_' + k)
    if spawn:
        res.count('cross_interpreter_pairs')
    has_set = 'LabObjSet' in json.dumps(spec['files'])
    if has_set:
        res.count('set_object_pairs')
    s1, s2 = o1['snapshot']['tasks'], o2['snapshot']['tasks']
    for a, b in name_map.items():
        kind = ref.tasks[a]['spec']['data_kind']
        l1, l2 = loc_of(s1[a], kind), loc_of(s2[b], kind)
        res.count('tasks_compared')
        if l1 != l2:
            mech = classify_difference(ref, ref2, s1, s2, a, b, name_map)
            res.violate(f'{a} -> {b}: same computation after [{"; ".join(descs)}]{" in another interpreter" if spawn else ""} but locations differ: {l1} vs {l2} '
                        f'(params {s1[a].get("persist_repr")!r} vs {s2[b].get("persist_repr")!r})', mech=mech, witness=witness, facts={'tag': 'location_differs'})
            break
    # descriptor -> location must be a function over both chains
    d2l = {}
    for refx, snap in ((ref, s1), (ref2, s2)):
        for n, t in refx.tasks.items():
            key = (t['slug'], t['descriptor'])
            loc = loc_of(snap[n], t['spec']['data_kind'])
            if key in d2l and d2l[key] != loc and not res.violations:
                res.violate(f'the same computation of {t["slug"]} has two locations: {d2l[key]} and {loc}', witness=witness, facts={'tag': 'not_a_function'})
            d2l.setdefault(key, loc)
    if len(set(applied)) >= 2 or spawn:
        res.nt(jhash([spec['files'], root, applied, descs]))
    if res.sample is None:
        res.sample = {'root': root, 'root2': root2, 'rewritings': descs, 'files': list(spec['files']), 'files2': list(spec2['files'])}


def _walk(v):
    if isinstance(v, dict):
        yield v
        for x in v.values():
            yield from _walk(x)
    elif isinstance(v, list):
        for x in v:
            yield from _walk(x)


SET_RE = None


def _norm_sets(text):
    import re
    if text is None:
        return None
    return re.sub(r'LabObjSet\(tags=\{[^}]*\}\)', 'LabObjSet(tags=<set: iteration order is interpreter dependent, no frozen text>)', text)


def classify_difference(ref, ref2, s1, s2, a, b, name_map):
    """known findings only: the implementation follows the frozen 1.4.0 key scheme exactly for the task and all its upstream tasks in BOTH
    configurations (same parameter text, same combination/hash), and the two locations differ solely because that scheme itself
    (a) takes python's repr of a set argument of a parameter object (iteration order depends on the interpreter's hash seed), or
    (b) takes python's repr of a mapping argument of a parameter object (insertion order of the mapping keys)."""
    from hashlib import sha256
    from .. import refscheme
    set_order, frozen_differs = False, False
    for m in [a] + sorted(ref.ancestors(a)):
        m2 = name_map[m]
        for refx, snap, n in ((ref, s1, m), (ref2, s2, m2)):
            t = refx.tasks[n]
            frozen = refscheme.params_repr(t['persisted'], refx.gv is not None)
            obs = snap[n].get('persist_repr')
            if _norm_sets(obs) != frozen:
                return None          # the implementation deviates from the frozen scheme: something else is going on
            ns = '::'.join(t['ns'])
            parts = []
            for full in sorted(t['inputs']):
                parts.append(f'{full[len(ns) + 2:] if ns else full}={snap[full]["key"]}')
            if sha256(f'{obs}$$${"###".join(parts)}'.encode()).hexdigest()[:32] != snap[n]['key']:
                return None
        o1, o2 = s1[m].get('persist_repr'), s2[m2].get('persist_repr')
        if o1 != o2:
            if _norm_sets(o1) == _norm_sets(o2):
                set_order = True
            else:
                frozen_differs = True
    if set_order and not frozen_differs:
        return 'set-repr-hashseed'
    if frozen_differs:
        return 'object-dict-arg-order'     # (possibly together with the set-order finding: both are listed, the scheme is followed exactly)
    return None


def witness_spec(objdef):
    return {'pkg': 'labw_c02', 'modules': [{'name': 'm', 'package': None, 'tasks': [
                {'cls': 'Probe', 'data_kind': 'json_dict', 'params': [{'name': 'obj'}], 'inputs': []},
                {'cls': 'Down', 'data_kind': 'numpy', 'params': [], 'inputs': [{'form': 'class', 'ref_class': 'Probe', 'ref_class_path': 'labw_c02.m.Probe',
                                                                               'access': 'index', 'index': 0}]}]}],
            'files': {'cfg/w.json': {'parts': {'': {'tasks': ['labw_c02.m.*'], 'values': {'obj': objdef}, 'uses': []}}}},
            'context_files': {}, 'fnames': ['cfg/w.json'], 'free_ns_words': ['n', 'm'], 'placeholders': None}


def run_witnesses(rng, res: CaseResult):
    """deterministic witnesses of the two open findings (each must produce exactly its KNOWN-FINDING line)"""
    root = {'file': 'cfg/w.json'}
    s1 = witness_spec({'class': 'tc_verif.lab.runtime.LabObjSet', 'kwargs': {'tags': ['alpha', 'beta', 'gamma', 'delta', 'eps', 'zeta', 'eta', 'theta']}})
    nm = {'probe': 'probe', 'down': 'down'}
    for hs in ((1, 2), (3, 4), (5, 6)):
        before = len(res.violations)
        compare_pair(rng, res, s1, root, s1, root, nm, ['same configuration, other PYTHONHASHSEED'], [], True, hashseeds=hs)
        if len(res.violations) > before:
            break
    a = witness_spec({'class': 'tc_verif.lab.runtime.LabObj', 'kwargs': {'a': {'k1': 1, 'k2': [2, {'x': 1, 'y': 2}]}}})
    b = witness_spec({'class': 'tc_verif.lab.runtime.LabObj', 'kwargs': {'a': {'k2': [2, {'y': 2, 'x': 1}], 'k1': 1}}})
    compare_pair(rng, res, a, root, b, root, nm, ['mapping keys inside an object definition permuted'], ['permute'], False)


def run_case(case) -> CaseResult:
    res = CaseResult()
    rng = random.Random(case['seed'])
    if case.get('witness'):
        run_witnesses(rng, res)
        return res
    for i in range(case['n']):
        run_pair(rng, res, set_objects=case.get('set_objects', False))
        if len(res.violations) > 3:
            break
    return res


def cases(tier, seed):
    rng = random.Random(f'c02-{seed}')
    yield {'witness': True, 'seed': 0}
    n = 140 if tier == 'quick' else 5000
    for i in range(n):
        yield {'n': 3, 'seed': rng.randrange(1 << 30), 'set_objects': i % 4 == 0}
