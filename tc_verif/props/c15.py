"""C15 — file caches stay consistent under concurrent use (controlled scheduler over the real cache code)."""
from __future__ import annotations

import itertools
import json
import random
import shutil
import tempfile
import threading
from pathlib import Path

from .. import sched
from ..canon import tcanon
from ..core import CaseResult, jhash

LEVEL = 'exploration'
RULE = ('case = 2-3 concurrent callers (get / get_or_compute / forced get_or_compute) on ONE key of a real JsonCache (DataFrameCache and NumpyArrayCache in the '
        'thorough tier), entry initially present or absent, same or separate cache objects. Callers are real threads; a sys.monitoring LINE callback gates every '
        'statement of the real cache code that touches shared state (existence check, open for read, load, computer, open for write = truncate, dump) and the real '
        'flock is taken non-blockingly under the controller, so exactly one caller advances at a time and the schedule is a list of choices. For 2 callers ALL '
        'gate-level schedules of every operation pair are enumerated by DFS (cap 20000 per pair, `exhaustive` reported per pair); 3 callers and the all-lines gating '
        'use random and priority (PCT-style) choosers. Every computer returns a unique value. offline oracle over the recorded history: every returned value is the '
        'complete result of one computation for the key (or the initial entry); no call raises; at quiescence the file parses to a complete entry for the key; '
        'an unforced get_or_compute that starts when a complete entry is stored and that no write overlaps does not invoke its computer; get computes nothing. '
        'non-trivial = schedule with >=1 context switch between the first and last step of some call; distinct = hash(config, choice sequence)')
REQUIRED = ['process_level_schedules', 'schedules', 'exhaustive_pairs', 'context_switch_schedules', 'reads_overlapping_writes', 'truncate_window_schedules', 'mid_pickle_write_interleavings', 'failing_forced_computations', 'lock_blocked_events',
            'three_caller_schedules', 'all_lines_schedules', 'schedules_of_independently_started_interpreters']
ASSUMPTIONS = ['gate granularity = statements of cache.py touching shared state + lock and computer events; interleavings inside one write() call are not split',
               'get may answer NO_VALUE while nothing is stored or a write overlaps it; callers that both started before either returned may both compute']
BUDGET = {'quick': 75, 'thorough': 1500}
EXHAUSTIVE = {'quick': True, 'thorough': True}
OPS = ['get', 'goc', 'force']
OPS_R = ['get', 'goc', 'force', 'get', 'goc', 'force', 'fraise']      # random schedules: now and then a forced caller whose computation fails
KEY = 'the-key'


class ComputeBoom(Exception):
    """the computation of a (forced) caller fails: nothing is stored by it and nobody else is affected"""


class Uniq:
    def __init__(self):
        self.n = 0
        self.lock = threading.Lock()

    def next(self, caller):
        with self.lock:
            self.n += 1
            return ['v', caller, self.n, 'p' * ((self.n * 37) % 90)]     # different lengths: overlapping writes leave a detectable mix


def make_value(kind, token):
    if kind == 'json':
        return token
    if kind == 'pd':
        import pandas as pd
        k = 2 + token[2] % 9
        return pd.DataFrame({'caller': [sched.GateStr(str(token[1]))] + [str(token[1])] * (k - 1), 'n': [token[2]] * k})
    import numpy as np
    if kind == 'npybig':
        # an array of more than 16 MiB (every computation fills it with its own number)
        a = np.full(2_200_000, float(token[2]))
        a[1] = float(sum(map(ord, str(token[1]))))
        return a
    if token[2] % 2:
        # object array: stored by pickling its elements
        a = np.empty(2 * (2 + token[2] % 7), dtype=object)
        a[:] = [str(token[1]), str(token[2])] * (2 + token[2] % 7)
        a[0] = sched.GateStr(str(token[1]))
        return a
    return np.array([str(token[1]), str(token[2])] * (2 + token[2] % 7))


def run_schedule(cfg, chooser, gate_all=False):
    """one execution of the real code under the controller; returns history dict"""
    from taskchain import cache as tc
    tmp = Path(tempfile.mkdtemp(prefix='c15-'))
    kind = cfg.get('cache', 'json')
    cls = {'json': tc.JsonCache, 'pd': tc.DataFrameCache, 'npy': tc.NumpyArrayCache}[kind]
    uniq = Uniq()
    produced = []          # canonical forms of complete values ever handed to the cache
    hist = {'calls': [], 'cfg': cfg}
    orig_lock = tc.FileLock
    if cfg.get('processes'):
        # callers are forked OS processes (flock between processes), gates are pipe round-trips
        from .. import sched_proc
        shared = cls(tmp / 'cache')
        if cfg['present']:
            tok = uniq.next('init')
            v0 = make_value('npybig' if cfg.get('big') else kind, tok)
            shared.get_or_compute(KEY, lambda: v0)
            if cfg['present'] == 'damaged':
                # what an interrupted earlier writer left behind: the first half of an entry (never a value; to be recomputed, and `get` says NO_VALUE)
                fp0 = shared.filepath(KEY)
                data0 = fp0.read_bytes()
                fp0.write_bytes(data0[:len(data0) // 2])
            else:
                produced.append(tcanon(v0))
        hist = sched_proc.run_schedule_processes(cfg, chooser, tmp / 'cache', KEY, gate_all=gate_all)
        hist['produced'] = produced + [json.loads(json.dumps(x)) for x in hist['produced']]
        for c in hist['calls']:
            if c['result'] not in (None, 'NO_VALUE'):
                c['result'] = json.loads(json.dumps(c['result']))
        hist['produced'] = [json.loads(json.dumps(x)) for x in hist['produced']]
        try:
            fp = shared.filepath(KEY)
            hist['final'] = json.loads(json.dumps(tcanon(shared.load_value(fp, KEY)))) if fp.exists() else 'ABSENT'
        except BaseException as e:  # noqa
            hist['final'] = f'UNREADABLE {type(e).__name__}: {e}'[:200]
        shutil.rmtree(tmp, ignore_errors=True)
        return hist
    ctl = sched.Controller(chooser, gate_all_lines=gate_all)
    try:
        shared = cls(tmp / 'cache')
        if cfg['present']:
            tok = uniq.next('init')
            v0 = make_value('npybig' if cfg.get('big') else kind, tok)
            shared.get_or_compute(KEY, lambda: v0)
            if cfg['present'] == 'damaged':
                # what an interrupted earlier writer left behind: the first half of an entry (never a value; to be recomputed, and `get` says NO_VALUE)
                fp0 = shared.filepath(KEY)
                data0 = fp0.read_bytes()
                fp0.write_bytes(data0[:len(data0) // 2])
            else:
                produced.append(tcanon(v0))
        caches = [shared if cfg.get('same_object', True) else cls(tmp / 'cache') for _ in cfg['ops']]
        tc.FileLock = sched.GatedFileLock
        sched.CURRENT['ctl'] = ctl
        fns = [tc.FileCache.get, tc.FileCache.get_or_compute, cls.save_value, cls.load_value]
        ctl.instrument(fns)
        calls = [{'caller': i, 'op': op, 'computed': 0, 'result': None, 'exc': None} for i, op in enumerate(cfg['ops'])]
        hist['calls'] = calls

        def mk(i, op):
            def computer():
                calls[i]['computed'] += 1
                if op == 'fraise':
                    ctl.note('computed', -1)
                    raise ComputeBoom(f'computer of caller {i} fails')
                tok = uniq.next(i)
                v = make_value('npybig' if cfg.get('big') else kind, tok)
                calls[i]['computed_value'] = tcanon(v)
                produced.append(tcanon(v))
                ctl.note('computed', tok[2])
                return v

            def fn():
                ctl.note('call', op)
                try:
                    if op == 'get':
                        r = caches[i].get(KEY)
                    else:
                        r = caches[i].get_or_compute(KEY, computer, force=(op in ('force', 'fraise')))
                    calls[i]['result'] = 'NO_VALUE' if r is tc.NO_VALUE else tcanon(r)
                except sched.Inconclusive:
                    raise
                except BaseException as e:  # noqa
                    calls[i]['exc'] = f'{type(e).__name__}: {e}'[:300]
                ctl.note('return', None)
            return fn
        inconclusive = None
        try:
            ctl.run([mk(i, op) for i, op in enumerate(cfg['ops'])])
        except sched.Inconclusive as e:
            inconclusive = str(e)
            with ctl.cond:
                for s in ctl.threads.values():
                    s['go'] = True
                ctl.cond.notify_all()
        hist['inconclusive'] = inconclusive
        hist['trace'] = ctl.trace
        hist['choices'] = ctl.choices
        hist['branching'] = ctl.branching
        hist['events'] = ctl.events
        hist['produced'] = produced
    finally:
        sched.CURRENT['ctl'] = None
        tc.FileLock = orig_lock
        ctl.uninstrument()
    # quiescent state
    try:
        fp = shared.filepath(KEY)
        if fp.exists():
            final = shared.load_value(fp, KEY)
            hist['final'] = tcanon(final)
        else:
            hist['final'] = 'ABSENT'
    except BaseException as e:  # noqa
        hist['final'] = f'UNREADABLE {type(e).__name__}: {e}'[:200]
    shutil.rmtree(tmp, ignore_errors=True)
    return hist


def judge(hist, res: CaseResult):
    cfg = hist['cfg']
    wit = {'cfg': cfg, 'choices': hist.get('choices'), 'trace': [list(t) for t in hist.get('trace', [])][:80], 'calls': hist['calls'], 'final': str(hist.get('final'))[:200]}
    if hist.get('inconclusive'):
        res.inconclusive.append(f'{cfg}: {hist["inconclusive"]}')
        return
    res.count('schedules')
    produced = hist['produced']
    ev = hist['events']
    # per caller: step of call/return; write intervals (truncate..released or return); stores
    call_step, ret_step, writes, blocked = {}, {}, [], 0
    open_w = {}
    for step, caller, kind, detail in ev:
        if kind == 'call':
            call_step[caller] = step
        elif kind == 'return':
            ret_step[caller] = step
        elif kind == 'blocked':
            blocked += 1
    for step, caller, label in hist['trace']:
        if 'save_value' in label and ('.open(' in label or 'to_pickle' in label or 'np.save' in label):
            open_w.setdefault(caller, step)     # first occurrence: the `with` line fires again when the block is left
    for c, s in open_w.items():
        writes.append((c, s, ret_step.get(c, 10 ** 9)))
    if blocked:
        res.count('lock_blocked_events', blocked)
    switches = sum(1 for a, b in zip(hist['trace'], hist['trace'][1:]) if a[1] != b[1])
    if switches > len(cfg['ops']) - 1:
        res.count('context_switch_schedules')
        res.nt(jhash([cfg, hist['choices']]))
    # complete-entry-stored times: initial, or end of a write
    stored_from = 0 if (cfg['present'] is True) else None
    for call in hist['calls']:
        i = call['caller']
        here = f'caller {i} ({call["op"]}) in schedule {hist["choices"]} of {cfg}'
        if call['op'] == 'fraise':
            res.count('failing_forced_computations')
            if not call['exc'] or 'ComputeBoom' not in call['exc']:
                res.violate(f'{here}: the computer raised but the call gave {call["exc"] or call["result"]!r}', witness=wit, facts={'tag': 'failure_swallowed'})
                return
            continue
        if call['exc']:
            res.violate(f'{here}: call failed although only another caller\'s activity interfered: {call["exc"]}', witness=wit, facts={'tag': 'call_raised'})
            return
        r = call['result']
        if r is None:
            res.inconclusive.append(f'{here}: no result recorded')
            return
        first_step = next((t[0] for t in hist['trace'] if t[1] == i), 0)
        overl = [w for w in writes if w[0] != i and w[1] <= ret_step.get(i, 10 ** 9) and w[2] >= first_step]
        # a write that had already begun before this call made its first step cannot excuse it: an implementation that checks existence under the
        # lock waits for that writer and then finds the complete entry
        excusing = [w for w in overl if w[1] >= first_step]
        if overl:
            res.count('reads_overlapping_writes')
        if r == 'NO_VALUE':
            if call['op'] != 'get':
                res.violate(f'{here}: get_or_compute returned NO_VALUE', witness=wit, facts={'tag': 'goc_no_value'})
                return
            stored_before = (cfg['present'] is True) or any(w[2] < first_step for w in writes) or bool([w for w in overl if w not in excusing])
            if stored_before and not excusing:
                res.violate(f'{here}: get answered NO_VALUE although a complete entry was stored before it started and no write overlapped it', witness=wit,
                            facts={'tag': 'get_missed'})
                return
        else:
            if r not in produced:
                res.violate(f'{here}: returned {str(r)[:120]}, which is not the complete result of any computation for the key', witness=wit, facts={'tag': 'partial_value'})
                return
        if call['op'] == 'get' and call['computed']:
            res.violate(f'{here}: get invoked a computer', witness=wit, facts={'tag': 'get_computed'})
            return
        if call['computed'] > 1:
            res.violate(f'{here}: computer invoked {call["computed"]} times by one call', witness=wit, facts={'tag': 'computed_twice'})
            return
        if call['op'] == 'force' and call['computed'] != 1:
            res.violate(f'{here}: forced call did not compute', witness=wit, facts={'tag': 'force_not_computed'})
            return
        if call['op'] == 'goc' and call['computed']:
            stored_before = (cfg['present'] is True) or any(w[2] < first_step for w in writes) or bool([w for w in overl if w not in excusing])
            if stored_before and not excusing:
                res.violate(f'{here}: unforced get_or_compute started when a complete entry was stored, no write overlapped it, yet it recomputed', witness=wit,
                            facts={'tag': 'needless_recompute'})
                return
    fin = hist.get('final')
    any_store = (cfg['present'] is True) or any(c['computed'] for c in hist['calls'] if c['op'] != 'fraise')
    if isinstance(fin, str) and fin.startswith('UNREADABLE') and cfg['present'] == 'damaged' and not any(c['computed'] for c in hist['calls'] if c['op'] != 'fraise'):
        return       # the damaged entry the callers found is still there: nobody had to write (readers only, or failing computations)
    if isinstance(fin, str) and fin.startswith('UNREADABLE'):
        res.violate(f'at quiescence the stored entry is unreadable ({fin}) after schedule {hist["choices"]} of {cfg}', witness=wit, facts={'tag': 'final_unreadable'})
        return
    if fin == 'ABSENT':
        if any_store:
            res.violate(f'at quiescence no entry is stored although a value was computed/stored: schedule {hist["choices"]} of {cfg}', witness=wit, facts={'tag': 'final_absent'})
        return
    if fin not in produced:
        res.violate(f'at quiescence the stored entry is not the complete result of one computation: {str(fin)[:150]}; schedule {hist["choices"]} of {cfg}', witness=wit,
                    facts={'tag': 'final_mixed'})
        return
    # truncate window: some caller advanced between another's open-for-write and its dump
    tr = hist['trace']
    for idx, (s, c, label) in enumerate(tr):
        if 'save_value' in label and '.open(' in label:
            nxt = next((t for t in tr[idx + 1:] if t[1] == c), None)
            between = [t for t in tr[idx + 1:] if nxt and t[0] < nxt[0] and t[1] != c]
            if between:
                res.count('truncate_window_schedules')
                break
    for idx, (step, c, label) in enumerate(tr):
        if label == 'pickle:mid-write':
            # the step released here is the rest of the write; other callers' steps between reaching the gate and this release ran mid-write
            prev = [t for t in tr[:idx] if t[1] == c]
            since = prev[-1][0] if prev else -1
            if any(t[1] != c and since < t[0] < step for t in tr):
                res.count('mid_pickle_write_interleavings')
                break


def dfs_all(cfg, res: CaseResult, cap=20000):
    prefix = []
    n = 0
    complete = True
    while True:
        def chooser(step, enabled, labels, _p=prefix):
            return _p[step] if step < len(_p) else 0
        hist = run_schedule(cfg, chooser)
        judge(hist, res)
        n += 1
        if hist.get('inconclusive') or res.violations:
            complete = False
            break
        ch, br = hist['choices'], hist['branching']
        i = len(ch) - 1
        while i >= 0 and ch[i] + 1 >= br[i]:
            i -= 1
        if i < 0:
            break
        prefix = ch[:i] + [ch[i] + 1]
        if n >= cap:
            complete = False
            break
    return n, complete


def run_case(case) -> CaseResult:
    res = CaseResult()
    cfg = case['cfg']
    if case['mode'] == 'dfs':
        n, complete = dfs_all(cfg, res, cap=case.get('cap', 20000))
        if complete:
            res.count('exhaustive_pairs')
        res.extra['schedules_per_pair'] = {f"{'+'.join(cfg['ops'])}/{'present' if cfg['present'] else 'absent'}/{'same' if cfg.get('same_object', True) else 'separate'}/{cfg.get('cache', 'json')}": n}
        res.extra['exhaustive_by_pair'] = {jhash(cfg): 1 if complete else 0}
        res.sample = {'cfg': cfg, 'schedules': n, 'complete': complete}
    else:
        rng = random.Random(case['seed'])
        for k in range(case['n']):
            if case['mode'] == 'pct':
                prio = {i: rng.random() for i in range(len(cfg['ops']))}
                change = {rng.randrange(0, 40): rng.randrange(len(cfg['ops'])) for _ in range(2)}

                def chooser(step, enabled, labels):
                    if step in change:
                        prio[change[step]] = -rng.random()
                    best = max(enabled, key=lambda e: prio[e])
                    return enabled.index(best)
            else:
                def chooser(step, enabled, labels):
                    return rng.randrange(len(enabled))
            hist = run_schedule(cfg, chooser, gate_all=case.get('gate_all', False))
            judge(hist, res)
            if len(cfg['ops']) >= 3:
                res.count('three_caller_schedules')
            if case.get('gate_all'):
                res.count('all_lines_schedules')
            if cfg.get('processes'):
                res.count('process_level_schedules')
            if cfg.get('spawned'):
                res.count('schedules_of_independently_started_interpreters')
            if cfg.get('present') == 'damaged':
                res.count('schedules_over_a_damaged_entry')
            if cfg.get('big'):
                res.count('schedules_with_arrays_over_16_MiB')
            if res.violations:
                break
        res.sample = {'cfg': cfg, 'mode': case['mode'], 'n': case['n']}
    return res


def cases(tier, seed):
    rng = random.Random(f'c15-{seed}')
    caches = ['json'] if tier == 'quick' else ['json', 'pd', 'npy']
    for cache in caches:
        for a, b in itertools.combinations_with_replacement(OPS, 2):
            for present in (True, False):
                for same in (True, False):
                    yield {'mode': 'dfs', 'cfg': {'ops': [a, b], 'present': present, 'same_object': same, 'cache': cache}, 'cap': 20000 if tier == 'thorough' else 6000}
    # a forced caller whose computation fails, next to readers / other writers (the stored entry must survive)
    for other in ('get', 'goc', 'force'):
        for present in (True, False):
            yield {'mode': 'dfs', 'cfg': {'ops': ['fraise', other], 'present': present, 'same_object': False, 'cache': 'json'}, 'cap': 6000}
    # a damaged entry (first half of a file left by an interrupted writer) met by readers and writers: all schedules of every pair
    for a, b in itertools.combinations_with_replacement(OPS, 2):
        yield {'mode': 'dfs', 'cfg': {'ops': [a, b], 'present': 'damaged', 'same_object': False, 'cache': 'json'}, 'cap': 1000 if tier == 'quick' else 20000}
    if tier == 'quick':
        # the pickle-based caches: readers overlapping a forced writer, all schedules
        for cache in ('pd', 'npy'):
            for a, b in (('get', 'force'), ('goc', 'force')):
                yield {'mode': 'dfs', 'cfg': {'ops': [a, b], 'present': True, 'same_object': False, 'cache': cache}, 'cap': 6000}
    # arrays of more than 16 MiB: a reader between a forced writer's statements must never see a well-formed file that is not a computed value
    for i in range(4 if tier == 'quick' else 40):
        yield {'mode': 'random', 'cfg': {'ops': [rng.choice(['get', 'goc']), 'force'], 'present': True, 'same_object': False, 'cache': 'npy', 'big': True},
               'n': 6, 'seed': rng.randrange(1 << 30), 'gate_all': True}
    caches3 = caches if tier != 'quick' else ['json', 'json', 'pd', 'npy']
    # a probing `get` next to two computing callers on an absent key (what the probe does after releasing the lock matters to the others)
    for i in range(20 if tier == 'quick' else 300):
        cfg = {'ops': ['get', 'goc', rng.choice(['goc', 'force'])], 'present': False, 'same_object': rng.random() < 0.3, 'cache': rng.choice(caches3)}
        yield {'mode': rng.choice(['random', 'pct']), 'cfg': cfg, 'n': 40, 'seed': rng.randrange(1 << 30), 'gate_all': i % 4 == 0}
    n3 = 60 if tier == 'quick' else 1500
    for i in range(n3):
        ops = [rng.choice(OPS_R) for _ in range(3)]
        cfg = {'ops': ops, 'present': rng.random() < 0.5, 'same_object': rng.random() < 0.5, 'cache': rng.choice(caches3)}
        yield {'mode': rng.choice(['random', 'pct']), 'cfg': cfg, 'n': 25, 'seed': rng.randrange(1 << 30), 'gate_all': i % 3 == 0}
    # process-level variant: callers are OS processes
    npr = 24 if tier == 'quick' else 600
    for i in range(npr):
        ops = [rng.choice(OPS_R) for _ in range(rng.choice([2, 2, 3]))]
        cfg = {'ops': ops, 'present': rng.random() < 0.5, 'same_object': False, 'cache': rng.choice(caches), 'processes': True}
        yield {'mode': rng.choice(['random', 'pct']), 'cfg': cfg, 'n': 12, 'seed': rng.randrange(1 << 30), 'gate_all': False}
    # callers that are independently started interpreters (each with its own PYTHONHASHSEED): what they agree on must not depend on the process
    for i in range(16 if tier == 'quick' else 300):
        ops = [rng.choice(['goc', 'goc', 'force', 'get']), rng.choice(['goc', 'force'])]
        cfg = {'ops': ops, 'present': rng.random() < 0.4, 'same_object': False, 'cache': rng.choice(caches3), 'processes': True, 'spawned': True, 'hashseed_base': i}
        yield {'mode': rng.choice(['random', 'pct']), 'cfg': cfg, 'n': 3, 'seed': rng.randrange(1 << 30), 'gate_all': False}
    if tier == 'thorough':
        for a, b in itertools.combinations_with_replacement(OPS, 2):
            for present in (True, False):
                yield {'mode': 'dfs', 'cfg': {'ops': [a, b], 'present': present, 'same_object': False, 'cache': 'json', 'processes': True}, 'cap': 20000}
    for i in range(n3 // 2):
        ops = [rng.choice(OPS_R) for _ in range(2)]
        cfg = {'ops': ops, 'present': rng.random() < 0.5, 'same_object': rng.random() < 0.5, 'cache': rng.choice(caches)}
        yield {'mode': 'random', 'cfg': cfg, 'n': 25, 'seed': rng.randrange(1 << 30), 'gate_all': True}
