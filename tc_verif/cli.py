"""./check <ID> [--tier quick|thorough] [--seed N] [--replay file] [--max-cases N] [--budget S]"""
from __future__ import annotations

import argparse
import concurrent.futures as cf
import importlib
import json
import multiprocessing as mp
import os
import sys
import time
from collections import Counter
from pathlib import Path

from . import core

MAX_VIOL_STORED = 25


def merge_extra(agg, extra):
    for k, v in extra.items():
        if isinstance(v, dict):
            c = agg.setdefault(k, Counter())
            for kk, vv in v.items():
                c[kk] += vv
        elif isinstance(v, list):
            s = agg.setdefault(k, set())
            for x in v:
                s.add(x if isinstance(x, (str, int)) else json.dumps(x, sort_keys=True))
        else:
            agg[k] = v


def main(argv=None):
    ap = argparse.ArgumentParser()
    ap.add_argument('prop')
    ap.add_argument('--tier', default=os.environ.get('VERIF_TIER', 'quick'), choices=['quick', 'thorough'])
    ap.add_argument('--seed', type=int, default=None)
    ap.add_argument('--replay', default=None)
    ap.add_argument('--max-cases', type=int, default=None)
    ap.add_argument('--budget', type=float, default=None)
    ap.add_argument('--workers', type=int, default=None)
    ap.add_argument('--no-evidence', action='store_true')
    args = ap.parse_args(argv)
    pid = args.prop.upper()
    seed = args.seed if args.seed is not None else int(os.environ.get('VERIF_SEED', '0') or 0)
    tier = args.tier
    modname = f'tc_verif.props.{pid.lower()}'
    try:
        mod = importlib.import_module(modname)
    except ModuleNotFoundError as e:
        print(f'INCONCLUSIVE property={pid} reason=no check module ({e})')
        return 2

    known_open = core.load_known_findings().get(pid, {})
    t0 = time.time()
    nworkers = args.workers or min(16, os.cpu_count() or 1)

    if args.replay:
        data = json.loads(Path(args.replay).read_text())
        case_iter = iter([data['case']])
        budget = 1e9
        nworkers = 1
    else:
        case_iter = mod.cases(tier, seed)
        budget = args.budget if args.budget is not None else mod.BUDGET[tier]

    counters = Counter()
    nontrivial = set()
    violations = []
    inconclusive = []
    samples = []
    extra = {}
    evaluations = 0
    exhausted = False
    case_wall = 0.0

    ctx = mp.get_context('spawn')
    from concurrent.futures.process import BrokenProcessPool
    pending = {}          # future -> case
    submitted = 0
    hard_deadline = t0 + budget * 4 + 600

    def absorb(d):
        nonlocal evaluations, case_wall
        evaluations += 1
        case_wall += d['wall']
        counters.update(d['counters'])
        nontrivial.update(d['nontrivial'])
        merge_extra(extra, d.get('extra') or {})
        if d['sample'] is not None and len(samples) < 5:
            samples.append(d['sample'])
        for r in d['inconclusive']:
            if len(inconclusive) < 20:
                inconclusive.append(r)
        for v in d['violations']:
            v['case'] = d['case']
            violations.append(v)

    def isolate(case):
        """run one case alone in a fresh worker process (twice if it dies): which case kills its interpreter?"""
        deaths = 0
        for _ in range(2):
            ex1 = cf.ProcessPoolExecutor(max_workers=1, mp_context=ctx, initializer=core.setup_worker_process)
            try:
                return 'ok', ex1.submit(core._run_case_in_worker, (modname, case)).result(timeout=budget * 4 + 600)
            except BrokenProcessPool:
                deaths += 1
            except Exception as e:  # noqa
                return 'error', f'{type(e).__name__}: {e}'
            finally:
                ex1.shutdown(wait=False, cancel_futures=True)
        return 'died', deaths

    rounds = 0
    while True:
        rounds += 1
        ex = cf.ProcessPoolExecutor(max_workers=nworkers, mp_context=ctx, initializer=core.setup_worker_process)
        suspects = []
        try:
            def refill():
                nonlocal submitted, exhausted
                while len(pending) < nworkers * 3 and not exhausted:
                    if time.time() - t0 > budget and submitted > 0:
                        # the budget is soft while a mandatory monitor has not been reached yet (slow or loaded machine): keep going, up to 4x
                        req_ = getattr(mod, 'REQUIRED', [])
                        req_ = req_.get(tier, []) if isinstance(req_, dict) else req_
                        if all(counters.get(k_, 0) > 0 for k_ in req_) or time.time() - t0 > budget * 4:
                            return
                    if args.max_cases is not None and submitted >= args.max_cases:
                        return
                    try:
                        case = next(case_iter)
                    except StopIteration:
                        exhausted = True
                        return
                    pending[ex.submit(core._run_case_in_worker, (modname, case))] = case
                    submitted += 1

            refill()
            broken = False
            while pending and not broken:
                done, _ = cf.wait(list(pending), timeout=30, return_when=cf.FIRST_COMPLETED)
                if not done:
                    if time.time() > hard_deadline:
                        inconclusive.append('watchdog: cases did not finish before the hard deadline')
                        pending.clear()
                        break
                    continue
                for fut in done:
                    case = pending.pop(fut)
                    try:
                        absorb(fut.result())
                    except BrokenProcessPool:
                        broken = True
                        suspects.append(case)
                    except Exception as e:  # noqa
                        inconclusive.append(f'worker failure: {type(e).__name__}: {e}')
                if not broken:
                    try:
                        refill()
                    except BrokenProcessPool:
                        broken = True
        finally:
            ex.shutdown(wait=False, cancel_futures=True)
        if not broken:
            break
        # a worker process died: every unfinished case is a suspect; run each alone to find the one(s) that kill the interpreter
        suspects += list(pending.values())
        pending.clear()
        with cf.ThreadPoolExecutor(max_workers=nworkers) as tp:
            for case, (status, d) in zip(suspects, tp.map(isolate, suspects)):
                if status == 'ok':
                    absorb(d)
                elif status == 'died':
                    counters['cases_that_killed_their_process'] += 1
                    violations.append({'what': 'the worker process running this case died abruptly (twice, alone in a fresh process): the code under test '
                                               'crashed the interpreter (fatal signal) instead of returning or raising', 'mech': None,
                                       'facts': {'tag': 'process_died'}, 'witness': None, 'case': case})
                else:
                    inconclusive.append(f'worker failure in isolation: {d}')
        if rounds >= 4 or exhausted and not pending:
            if rounds >= 4:
                inconclusive.append('worker processes kept dying: gave up after 4 pool restarts')
            break

    # ---- verdict -------------------------------------------------------------------------------
    known_seen = Counter()
    new_viol = []
    for v in violations:
        if v['mech'] is not None and v['mech'] in known_open:
            known_seen[v['mech']] += 1
        else:
            new_viol.append(v)

    required = getattr(mod, 'REQUIRED', {}).get(tier, []) if isinstance(getattr(mod, 'REQUIRED', None), dict) \
        else getattr(mod, 'REQUIRED', [])
    if not args.replay:
        for name in required:
            if counters.get(name, 0) <= 0:
                inconclusive.append(f'mandatory counter `{name}` is zero: the deciding monitor was never reached')
        if len(nontrivial) < 2:
            inconclusive.append('fewer than 2 distinct non-trivial cases were observed')

    replay_paths = []
    if new_viol:
        rdir = core.VERIF_DIR / 'replays' / pid
        rdir.mkdir(parents=True, exist_ok=True)
        for i, v in enumerate(new_viol[:MAX_VIOL_STORED]):
            p = rdir / f'{tier}-seed{seed}-{core.jhash([v["case"], v["what"]])}.json'
            p.write_text(json.dumps({'property': pid, 'tier': tier, 'seed': seed, 'case': v['case'],
                                     'mech': v['mech'], 'what': v['what'], 'facts': v['facts'],
                                     'witness': v['witness']}, indent=1, default=repr))
            replay_paths.append(str(p))

    wall = time.time() - t0
    if not args.no_evidence and not args.replay:
        extra_out = {}
        for k, v in extra.items():
            if isinstance(v, Counter):
                extra_out[k] = dict(sorted(v.items(), key=lambda kv: str(kv[0]))[:400])
            elif isinstance(v, set):
                extra_out[k + '_distinct'] = len(v)
                extra_out[k + '_sample'] = sorted(v, key=str)[:12]
            else:
                extra_out[k] = v
        ev = {
            'property_id': pid, 'tier': tier, 'seed': seed, 'level': mod.LEVEL,
            'coverage': {
                'evaluations': evaluations,
                'distinct_nontrivial': len(nontrivial),
                'rule': mod.RULE,
                'samples': samples or ['(no sample recorded)'],
                'observed': dict(sorted(counters.items())),
                'mandatory_counters': required,
                'case_space_exhausted': exhausted,
                **({'exhaustive': bool(getattr(mod, 'EXHAUSTIVE', {}).get(tier)) and exhausted}
                   if hasattr(mod, 'EXHAUSTIVE') else {}),
                **extra_out,
            },
            'assumptions': list(getattr(mod, 'ASSUMPTIONS', [])),
            'wall_s': round(wall, 2),
            'cpu_case_s': round(case_wall, 2),
            'violations': len(new_viol),
            'known_findings_seen': dict(known_seen),
            'inconclusive': inconclusive,
            'repo': str(core.REPO),
            'violation_summaries': [{'what': v['what'][:600], 'mech': v['mech']} for v in new_viol[:10]],
        }
        (core.VERIF_DIR / 'evidence').mkdir(exist_ok=True)
        (core.VERIF_DIR / 'evidence' / f'{pid}.json').write_text(json.dumps(ev, indent=1, default=repr))

    for mech, n in sorted(known_seen.items()):
        print(f'KNOWN-FINDING: property={pid} {known_open[mech]} [key={mech}, seen {n}x]')
    print(f'{pid} tier={tier} seed={seed} cases={evaluations} distinct_nontrivial={len(nontrivial)} '
          f'wall={wall:.1f}s observed=' + json.dumps(dict(sorted(counters.items()))))
    if new_viol:
        tags = Counter((v.get('facts') or {}).get('tag', '-') for v in new_viol)
        print(f'  {len(new_viol)} violations by tag: {dict(tags)}')
        for v in new_viol[:5]:
            print(f'  violation: [{v["mech"]}] {v["what"][:800]}')
        print(f'VIOLATION property={pid} replay={replay_paths[0]}')
        return 1
    if inconclusive:
        for r in inconclusive[:5]:
            print(f'INCONCLUSIVE property={pid} reason={r[:1500]}')
        return 2
    print(f'HELD property={pid} on {evaluations} cases ({len(nontrivial)} distinct non-trivial)')
    return 0


if __name__ == '__main__':
    _code = main()
    # leave at once with the verdict: the worker pools were shut down without waiting, their management threads must not get the chance to
    # turn interpreter shutdown into noise (or into another exit status)
    sys.stdout.flush()
    sys.stderr.flush()
    # the (idle) pool workers are children of this process: end them, nothing may linger after the verdict
    try:
        import signal
        me = os.getpid()
        for d_ in os.listdir('/proc'):
            if d_.isdigit():
                try:
                    with open(f'/proc/{d_}/stat') as fh_:
                        ppid_ = int(fh_.read().rsplit(')', 1)[1].split()[1])
                    if ppid_ == me:
                        with open(f'/proc/{d_}/cmdline', 'rb') as fh_:
                            cmd_ = fh_.read()
                        if b'resource_tracker' in cmd_:
                            continue       # multiprocessing's tracker unlinks the pools' semaphores once this process is gone
                        os.kill(int(d_), signal.SIGKILL)
                except (OSError, ValueError, IndexError):
                    pass
    except Exception:
        pass
    os._exit(_code if isinstance(_code, int) else 0)
