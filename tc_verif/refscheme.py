"""Frozen, independent implementation of the documented storage layout and of the 1.4.0 key derivation.

Written from the documentation and the 1.4.0 behaviour; never derived from /repo at run time.  Values are
*configured* values in placeholder form: JSON-like data, object definitions ({'class': ..., 'kwargs': ...} for the
lab's parameter objects) and the marker tuple ('path', text) for dtype=Path parameters.
"""
from __future__ import annotations

from hashlib import sha256

EXT = {'figure': 'pickle', 'json_len': 'json', 'json_dict': 'json', 'json_list': 'json', 'str': 'json', 'int': 'json', 'numpy': 'npy', 'pandas': 'pd',
       'generator': 'jsonl', 'lazy': 'jsonl', 'listnp': None, 'dir': None, 'dir_link': None, 'continues': None, 'memory': None,
       'empty_gen': 'jsonl', 'empty_listnp': None, 'empty_dir': None}


def is_objdef(v):
    return isinstance(v, dict) and 'class' in v


import re

PLACEHOLDER = re.compile(r'{(.*?)}')


def value_repr(v, gv_active=False) -> str:
    """1.4.0 repr_from_instantiation on configured values.

    gv_active: global_vars were given to the config. Then every string in which the placeholder pattern matches (defined
    name or not) went through substitution and is represented by python's repr() of its original text; all other strings
    are wrapped in single quotes without escaping."""
    if isinstance(v, tuple) and v and v[0] == 'path':
        return repr(v[1]) if v[1] is not None else repr(None)
    if is_objdef(v):
        return objdef_repr(v)
    if isinstance(v, list):
        return '[' + ', '.join(value_repr(x, gv_active) for x in v) + ']'
    if isinstance(v, dict):
        return '{' + ', '.join(f'{value_repr(k)}: {value_repr(x, gv_active)}' for k, x in sorted(v.items())) + '}'
    if isinstance(v, str):
        if gv_active and PLACEHOLDER.search(v):
            return repr(v)
        return f"'{v}'"
    return repr(v)


def py_repr(v) -> str:
    """python repr() as applied by AutoParameterObject.repr to constructor arguments (placeholder form for strings)."""
    if is_objdef(v):
        return objdef_repr(v)
    if isinstance(v, list):
        return '[' + ', '.join(py_repr(x) for x in v) + ']'
    if isinstance(v, dict):
        return '{' + ', '.join(f'{py_repr(k)}: {py_repr(x)}' for k, x in v.items()) + '}'
    return repr(v)


def objdef_repr(d) -> str:
    name = d['class'].split('.')[-1]
    kw = dict(d.get('kwargs', {}))
    if name in ('LabObj', 'LabObjSub'):
        args = {'a': kw['a']}
        if 'b' in kw and kw['b'] != 3:
            args['b'] = kw['b']
        if name == 'LabObjSub':
            args['limit'] = kw.get('limit', 10)     # constructor arguments added by a subclass are part of its representation
        return name + '(' + ', '.join(f'{k}={py_repr(v)}' for k, v in sorted(args.items())) + ')'
    if name == 'LabObjPlain':
        return f'LabObjPlain(x={py_repr(kw["x"])})'
    if name == 'LabObjVar':
        # `**options` is a constructor argument like any other: the mapping (in the order the options were written) is part of the text
        opts = {k: x for k, x in kw.items() if k not in ('a', 'shape')}
        shape = kw['shape'] if 'shape' in kw else (4, 3)       # the default is a TUPLE: `shape=(4, 3)`; a configured list reads `shape=[4, 3]`
        return f'LabObjVar(a={py_repr(kw["a"])}, options={py_repr(opts)}, shape={py_repr(shape)})'
    if name == 'LabObjDerived':
        return f'LabObjDerived(root={py_repr(kw["root"])})'      # the raw argument (kept in `_root`), never the derived public attribute
    if name == 'LabChainObj':
        return f'LabChainObj(a={py_repr(kw["a"])})'
    if name == 'LabObjSet':
        return 'LabObjSet(tags=<set: iteration order is interpreter dependent, no frozen text>)'
    if name in ('LabOpAdd', 'LabOpMul'):
        return name + '(' + ', '.join(f'{k}={py_repr(v)}' for k, v in sorted({'amount': kw['amount'], 'unit': kw.get('unit')}.items())) + ')'
    if name == 'LabOpTuned':
        # the class names its own ignorable arguments (`cache_dir`): that REPLACES the defaults, so its `debug` and `verbose` arguments are part of the text
        args = {'amount': kw['amount'], 'debug': kw.get('debug', False), 'verbose': kw.get('verbose', False)}
        return name + '(' + ', '.join(f'{k}={py_repr(v)}' for k, v in sorted(args.items())) + ')'
    raise ValueError(f'unknown lab object {name}')


def params_repr(persisted: dict, gv_active=False):
    """persisted: {param name: configured value}"""
    if not persisted:
        return None
    return '###'.join(f'{n}={value_repr(v, gv_active)}' for n, v in sorted(persisted.items()))


def key(persisted: dict, inputs: dict, own_namespace: str | None, gv_active=False) -> str:
    """inputs: {input task full name: key of that input}"""
    parts = []
    for full, k in sorted(inputs.items()):
        name = full
        if own_namespace:
            name = full[len(own_namespace) + 2:]
        parts.append(f'{name}={k}')
    return sha256(f'{params_repr(persisted, gv_active)}$$${"###".join(parts)}'.encode()).hexdigest()[:32]


def rel_dir(slug: str) -> str:
    """<group levels>/<task name> relative to the data dir"""
    return slug.replace(':', '/')


def rel_path(slug: str, k: str, data_kind: str):
    ext = EXT[data_kind]
    if data_kind == 'memory':
        return None
    return f'{rel_dir(slug)}/{k}' + (f'.{ext}' if ext else '')


def side_files(slug: str, k: str):
    return f'{rel_dir(slug)}/{k}.run_info.yaml', f'{rel_dir(slug)}/{k}.log'
