"""Shared plumbing: case results, aggregation, verdicts, known findings, evidence.

Every property module exposes

    LEVEL      = 'exploration' | 'fault_enumeration'
    RULE       = str   (how cases are generated, what makes one non-trivial/distinct)
    REQUIRED   = [counter names that must be > 0 for the run to be conclusive]
    ASSUMPTIONS= [str]
    def cases(tier, seed) -> iterator of JSON-able case dicts
    def run_case(case)   -> CaseResult   (executed inside a pool worker)
    BUDGET = {'quick': seconds, 'thorough': seconds}   soft wall budget for submitting cases

Oracles never decide on wall-clock; the budget only bounds how many cases are *started*.
"""
from __future__ import annotations

import hashlib
import json
import os
import re
import sys
import time
import traceback
from collections import Counter
from pathlib import Path

VERIF_DIR = Path(__file__).resolve().parent.parent
REPO = Path(os.environ.get('VERIF_REPO', '/repo'))


def jhash(obj) -> str:
    return hashlib.sha256(json.dumps(obj, sort_keys=True, default=repr).encode()).hexdigest()[:16]


class CaseResult:
    """What one executed case observed. Plain data, picklable."""

    def __init__(self):
        self.counters = Counter()
        self.nontrivial = set()      # hashes of distinct non-trivial sub-cases
        self.violations = []         # [{'mech': str|None, 'what': str, 'facts': {...}, 'witness': {...}}]
        self.sample = None
        self.inconclusive = []       # reasons
        self.extra = {}              # property specific aggregates (merged by key: set/Counter/list)

    def count(self, name, n=1):
        self.counters[name] += n

    def nt(self, obj):
        self.nontrivial.add(obj if isinstance(obj, str) and len(obj) == 16 else jhash(obj))

    def violate(self, what, mech=None, facts=None, witness=None):
        self.violations.append({'mech': mech, 'what': what, 'facts': facts or {}, 'witness': witness})

    def to_dict(self):
        return {
            'counters': dict(self.counters), 'nontrivial': sorted(self.nontrivial),
            'violations': self.violations, 'sample': self.sample, 'inconclusive': self.inconclusive,
            'extra': self.extra,
        }


def load_known_findings():
    """known_findings.txt: `open: property=<id> key=<mech> :: text` / `fixed: property=<id> <commit> text`."""
    path = VERIF_DIR / 'known_findings.txt'
    open_entries = {}
    if path.exists():
        for line in path.read_text().splitlines():
            line = line.strip()
            if not line or line.startswith('#'):
                continue
            m = re.match(r'open:\s+property=(\S+)\s+key=(\S+)\s+::\s+(.*)', line)
            if m:
                open_entries.setdefault(m[1], {})[m[2]] = m[3]
    return open_entries


def setup_worker_process():
    """Run at the start of every pool worker: quiet logging, deterministic env."""
    import logging
    if not os.environ.get('VERIF_DEBUG'):
        try:
            devnull = os.open(os.devnull, os.O_WRONLY)
            os.dup2(devnull, 2)
        except OSError:
            pass
    sys.path.insert(0, str(REPO / 'src'))
    import taskchain  # noqa
    import taskchain.cache
    lg = logging.getLogger('cache')
    for h in list(lg.handlers):
        lg.removeHandler(h)
    lg.addHandler(logging.NullHandler())
    lg.propagate = False
    logging.getLogger().setLevel(logging.CRITICAL)
    from taskchain import Chain
    Chain.log_handler.setLevel(logging.CRITICAL + 10)


def _run_case_in_worker(args):
    mod_name, case = args
    import importlib
    mod = importlib.import_module(mod_name)
    t0 = time.time()
    try:
        res = mod.run_case(case)
        d = res.to_dict()
    except BaseException as e:  # harness error: inconclusive, never a violation
        d = CaseResult().to_dict()
        d['inconclusive'] = [f'harness error in run_case: {type(e).__name__}: {e}\n{traceback.format_exc()[-1500:]}']
    d['case'] = case
    d['wall'] = time.time() - t0
    return d
