"""Process-level variant of the controlled scheduler: every caller is a forked OS process; gates are pipe round-trips.

Same gate placement as sched.py (sys.monitoring LINE events on the real cache code + the real flock taken non-blockingly);
the controller in the parent lets exactly one process advance at a time.
"""
from __future__ import annotations

import os
import pickle
import signal
import sys
import time
from multiprocessing import Pipe
from multiprocessing.connection import wait as conn_wait

import filelock

from . import sched

WATCHDOG = 20.0
SPAWN_WATCHDOG = 90.0      # an interpreter that starts from scratch imports numpy/pandas first


class ChildCtl:
    """what sched.GatedFileLock and the LINE callback talk to inside a caller process"""

    def __init__(self, conn, idx, gate_all=False):
        self.conn = conn
        self.idx = idx
        self.threads = {}
        self.gate_lines = {}
        self.gate_all_lines = gate_all
        self.lock_epoch = 0
        import threading
        self.threads[threading.get_ident()] = {'idx': idx, 'blocked_epoch': None}

    def gate(self, label):
        self.conn.send(('gate', label))
        msg = self.conn.recv()
        if msg != 'go':
            os._exit(3)

    def note(self, kind, detail=None):
        self.conn.send(('note', kind, detail))

    instrument = sched.Controller.instrument
    _on_line = sched.Controller._on_line


def child_main(conn, idx, op, cfg, directory, key, gate_all):
    try:
        from taskchain import cache as tc
        from .props.c15 import make_value
        from .canon import tcanon
        kind = cfg.get('cache', 'json')
        cls = {'json': tc.JsonCache, 'pd': tc.DataFrameCache, 'npy': tc.NumpyArrayCache}[kind]
        ctl = ChildCtl(conn, idx, gate_all)
        cache = cls(directory)
        tc.FileLock = sched.GatedFileLock
        sched.CURRENT['ctl'] = ctl
        ctl.instrument([tc.FileCache.get, tc.FileCache.get_or_compute, cls.save_value, cls.load_value])
        state = {'computed': 0, 'computed_value': None, 'n': 0}

        def computer():
            state['computed'] += 1
            state['n'] += 1
            if op == 'fraise':
                ctl.note('computed', None)
                from .props.c15 import ComputeBoom
                raise ComputeBoom(f'computer of caller {idx} fails')
            tok = ['v', idx, 100 * (idx + 1) + state['n'], 'p' * (((idx + 3) * 37 * state['n']) % 90)]
            v = make_value(kind, tok)
            state['computed_value'] = tcanon(v)
            ctl.note('computed', tcanon(v))
            return v
        ctl.note('call', op)
        result, exc = None, None
        try:
            if op == 'get':
                r = cache.get(key)
            else:
                r = cache.get_or_compute(key, computer, force=(op in ('force', 'fraise')))
            result = 'NO_VALUE' if r is tc.NO_VALUE else tcanon(r)
        except BaseException as e:  # noqa
            exc = f'{type(e).__name__}: {e}'[:300]
        conn.send(('done', {'result': result, 'exc': exc, 'computed': state['computed'], 'computed_value': state['computed_value']}))
    except BaseException as e:  # noqa
        try:
            conn.send(('harness_error', f'{type(e).__name__}: {e}'))
        except Exception:
            pass
    finally:
        os._exit(0)


def run_schedule_processes(cfg, chooser, directory, key, gate_all=False):
    """-> history dict in the format props.c15.judge expects (without 'final'/'produced' of the initial entry)"""
    conns, pids = [], []
    for i, op in enumerate(cfg['ops']):
        parent, child = Pipe()
        pid = os.fork()
        if pid == 0:
            parent.close()
            for c_ in conns:
                c_.close()
            if cfg.get('spawned'):
                # an independently started interpreter (its own string-hash seed, nothing inherited but the pipe to the controller)
                import json
                try:
                    fd = child.fileno()
                    os.set_inheritable(fd, True)
                    env = dict(os.environ, PYTHONHASHSEED=str(1000 + 17 * i + cfg.get('hashseed_base', 0)))
                    env['PYTHONPATH'] = os.path.dirname(os.path.dirname(os.path.abspath(__file__))) + (os.pathsep + env['PYTHONPATH'] if env.get('PYTHONPATH') else '')
                    os.execve(sys.executable, [sys.executable, '-m', 'tc_verif.sched_proc', str(fd), str(i), op, json.dumps(cfg), str(directory), key,
                                               '1' if gate_all else '0'], env)
                finally:
                    os._exit(4)
            child_main(child, i, op, cfg, directory, key, gate_all)
            os._exit(0)
        child.close()
        conns.append(parent)
        pids.append(pid)
    n = len(conns)
    state = [{'at': None, 'waiting': False, 'done': False, 'blocked_epoch': None, 'res': None} for _ in range(n)]
    trace, choices, branching, events, produced = [], [], [], [], []
    step = 0
    lock_epoch = 0
    inconclusive = None

    def pump(i, timeout):
        """read messages of child i until it waits at a gate or is done"""
        nonlocal lock_epoch, inconclusive
        deadline = time.time() + timeout
        while not state[i]['waiting'] and not state[i]['done']:
            if not conns[i].poll(max(0.0, deadline - time.time())):
                inconclusive = f'caller process {i} did not reach its next gate (watchdog)'
                return
            try:
                msg = conns[i].recv()
            except EOFError:
                state[i]['done'] = True
                if state[i]['res'] is None:
                    inconclusive = f'caller process {i} died'
                return
            if msg[0] == 'gate':
                state[i]['at'] = msg[1]
                state[i]['waiting'] = True
            elif msg[0] == 'note':
                kind, detail = msg[1], msg[2]
                if kind == 'computed':
                    if detail is not None:
                        produced.append(detail)
                    detail = None
                events.append((step, i, kind, detail))
                if kind == 'released':
                    lock_epoch += 1
                elif kind == 'blocked':
                    state[i]['blocked_epoch'] = lock_epoch
                elif kind == 'acquired':
                    state[i]['blocked_epoch'] = None
            elif msg[0] == 'done':
                state[i]['res'] = msg[1]
                state[i]['done'] = True
                events.append((step, i, 'return', None))
            elif msg[0] == 'harness_error':
                inconclusive = f'caller process {i}: {msg[1]}'
                state[i]['done'] = True
    try:
        for i in range(n):
            pump(i, SPAWN_WATCHDOG if cfg.get('spawned') else WATCHDOG)
        while inconclusive is None:
            live = [i for i in range(n) if not state[i]['done']]
            if not live:
                break
            enabled = [i for i in live if not (state[i]['blocked_epoch'] is not None and state[i]['blocked_epoch'] == lock_epoch)]
            if not enabled:
                inconclusive = f'deadlock: every live caller process is blocked on the lock: {[(i, state[i]["at"]) for i in live]}'
                break
            k = chooser(step, enabled, [state[i]['at'] for i in enabled]) % len(enabled)
            choices.append(k)
            branching.append(len(enabled))
            i = enabled[k]
            trace.append((step, i, state[i]['at']))
            step += 1
            state[i]['waiting'] = False
            conns[i].send('go')
            pump(i, WATCHDOG)
    finally:
        for pid in pids:
            try:
                os.kill(pid, signal.SIGKILL)
            except ProcessLookupError:
                pass
            try:
                os.waitpid(pid, 0)
            except ChildProcessError:
                pass
        for c in conns:
            c.close()
    calls = []
    for i, op in enumerate(cfg['ops']):
        r = state[i]['res'] or {'result': None, 'exc': None, 'computed': 0}
        calls.append({'caller': i, 'op': op, 'computed': r['computed'], 'result': r['result'], 'exc': r['exc']})
    return {'cfg': cfg, 'calls': calls, 'trace': trace, 'choices': choices, 'branching': branching, 'events': events, 'produced': produced, 'inconclusive': inconclusive}


if __name__ == '__main__':
    # caller process started by exec (cfg['spawned']): argv = fd idx op cfg-json directory key gate_all
    import json as _json
    from multiprocessing.connection import Connection
    from .core import setup_worker_process
    setup_worker_process()
    _conn = Connection(int(sys.argv[1]))
    child_main(_conn, int(sys.argv[2]), sys.argv[3], _json.loads(sys.argv[4]), sys.argv[5], sys.argv[6], sys.argv[7] == '1')
