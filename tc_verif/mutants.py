"""Self-validation: apply small edits to a scratch copy of the repository and confirm the checks fire.

usage: python -m tc_verif.mutants [--prop C17] [--id name] [--suite] [--tier quick]
Results table -> /verif/mutants/RESULTS.md (only when run over all mutants with --write).
Scratch copies live under tempfile.mkdtemp() outside /repo and /verif and are removed after each mutant.
"""
from __future__ import annotations

import argparse
import os
import shutil
import subprocess
import sys
import tempfile
import time
from pathlib import Path

VERIF = Path(__file__).resolve().parent.parent
REPO = Path('/repo')

# (id, property, file under src/taskchain, old, new)
M = []


def m(id, prop, file, old, new, count=1):
    M.append({'id': id, 'prop': prop, 'file': file, 'old': old, 'new': new, 'count': count})


# ---- C17 -----------------------------------------------------------------------------------------------
m('c17-drop-sort', 'C17', 'utils/threading.py',
  "for _, res in sorted(chunk_result, key=lambda ires: ires[0]) if sort else chunk_result:",
  "for _, res in chunk_result:")
m('c17-sort-by-result', 'C17', 'utils/iter.py',
  "return [res for _, res in sorted(result, key=lambda ires: ires[0])]",
  "return [res for _, res in sorted(result, key=lambda ires: ires[1])]")
m('c17-chunk-tail', 'C17', 'utils/iter.py',
  "    if result_size > 0:\n        yield result", "    if result_size > 1:\n        yield result")
m('c17-iter-nosort', 'C17', 'utils/iter.py',
  "return [res for _, res in sorted(result, key=lambda ires: ires[0])]",
  "return [res for _, res in result]")
m('c17-swallow-exc', 'C17', 'utils/threading.py',
  "                to_append = await output_value\n",
  "                try:\n                    to_append = await output_value\n                except Exception:\n                    continue\n")

# ---- C10 -----------------------------------------------------------------------------------------------
m('c10-first-match', 'C10', 'task.py',
  "    if len(matching_tasks) > 1:\n        raise KeyError(f'Ambiguous task name", "    if len(matching_tasks) > 99:\n        raise KeyError(f'Ambiguous task name")
m('c10-no-priority', 'C10', 'task.py',
  "            if all(_is_less_nested(cand, t) for t in matching_tasks):", "            if False:")
m('c10-textual-suffix', 'C10', 'task.py',
  "            if all(_is_less_nested(cand, t) for t in matching_tasks):", "            if all(t.endswith(cand) for t in matching_tasks):")
m('c10-group-endswith', 'C10', 'task.py',
  "            return fullname.split(':')[-1] == name", "            return fullname.endswith(name)")
m('c10-partial-group', 'C10', 'task.py',
  "        if ':' in fullname and ':' not in name:\n            return fullname.split(':')[-1] == name",
  "        if ':' in fullname:\n            return fullname.endswith(':' + name)")
m('c10-ns-ignored', 'C10', 'task.py',
  "        if (namespace or not determine_namespace) and fullnamespace != namespace:",
  "        if (namespace or not determine_namespace) and not fullnamespace.endswith(namespace):")

# ---- C11 -----------------------------------------------------------------------------------------------
m('c11-top-level-only', 'C11', 'utils/data.py',
  "                if not _traverse(v) and _is_valid(v):\n                    o[k] = fce(v)", "                if not isinstance(v, (list, dict)) and _is_valid(v):\n                    o[k] = fce(v)")
m('c11-resubstitute', 'C11', 'utils/data.py',
  "        if isinstance(string, ReprStr):\n            return string\n", "")
m('c11-greedy', 'C11', 'utils/data.py', "re.subn(r'{(.*?)}', _replace, string)", "re.subn(r'{(.*)}', _replace, string)")
m('c11-no-deepcopy', 'C11', 'utils/data.py', "    def __deepcopy__(self, memo):\n        return self.__copy__()\n", "")
m('c11-copy-requote', 'C11', 'utils/data.py', "        copied.repr = self.repr\n", "        copied.repr = repr(self.repr)\n")
m('c11-list-skip-first', 'C11', 'utils/data.py',
  "            for i, v in enumerate(o):\n                if not _traverse(v) and _is_valid(v):", "            for i, v in enumerate(o):\n                if i and not _traverse(v) and _is_valid(v):")
m('c11-context-uses-not-substituted', 'C11', 'config.py',
  "        if self.global_vars is not None:\n            self.apply_global_vars(self.global_vars)", "        if self.global_vars is not None and 'uses' not in self._data:\n            self.apply_global_vars(self.global_vars)")
# (returning the plain str when only undefined placeholders occurred is behaviourally equivalent: not a mutant)
m('c11-repr-substituted', 'C11', 'utils/data.py', "            return ReprStr(new_string, string)", "            return ReprStr(new_string, new_string)")


def make_scratch():
    d = Path(tempfile.mkdtemp(prefix='tcmut-'))
    shutil.copytree(REPO / 'src', d / 'src', ignore=shutil.ignore_patterns('__pycache__', '*.egg-info'))
    shutil.copytree(REPO / 'tests', d / 'tests', ignore=shutil.ignore_patterns('__pycache__'))
    shutil.copy(REPO / 'pyproject.toml', d / 'pyproject.toml')
    return d


def apply_edit(scratch, mut):
    p = scratch / 'src' / 'taskchain' / mut['file']
    s = p.read_text()
    if s.count(mut['old']) < 1:
        raise SystemExit(f"mutant {mut['id']}: pattern not found in {mut['file']}")
    p.write_text(s.replace(mut['old'], mut['new'], mut['count']))


def run_suite(scratch):
    env = dict(os.environ, PYTHONPATH=str(scratch / 'src'))
    r = subprocess.run(['/venv/bin/python', '-m', 'pytest', '-q', '-p', 'no:cacheprovider', '-x'], cwd=scratch, env=env,
                       capture_output=True, text=True, timeout=900)
    tail = r.stdout.strip().splitlines()[-1] if r.stdout.strip() else ''
    return r.returncode == 0, tail


def run_check(scratch, prop, tier, extra=()):
    env = dict(os.environ, VERIF_REPO=str(scratch))
    t0 = time.time()
    r = subprocess.run([str(VERIF / 'check'), prop, '--tier', tier, '--no-evidence', *extra], cwd=VERIF, env=env,
                       capture_output=True, text=True, timeout=3600)
    out = r.stdout
    viol = [l for l in out.splitlines() if l.startswith('VIOLATION')]
    first = [l for l in out.splitlines() if l.strip().startswith('violation:')][:1]
    return r.returncode, bool(viol), (first[0].strip()[:200] if first else out.strip().splitlines()[-1][:200] if out.strip() else r.stderr[-200:]), time.time() - t0


def main():
    ap = argparse.ArgumentParser()
    ap.add_argument('--prop')
    ap.add_argument('--id')
    ap.add_argument('--suite', action='store_true', help='also run the repository test-suite on the mutant')
    ap.add_argument('--tier', default='quick')
    ap.add_argument('--patch', help='apply a patch file (git apply) instead of a registered mutant; needs --prop')
    ap.add_argument('--write', action='store_true')
    args = ap.parse_args()
    rows = []
    if args.patch:
        muts = [{'id': Path(args.patch).parent.name, 'prop': args.prop, 'patch': args.patch}]
    else:
        muts = [x for x in M if (not args.prop or x['prop'] == args.prop) and (not args.id or x['id'] == args.id)]
    for mut in muts:
        scratch = make_scratch()
        try:
            if 'patch' in mut:
                subprocess.run(['git', 'init', '-q'], cwd=scratch, check=True)
                r = subprocess.run(['git', 'apply', '--whitespace=nowarn', str(Path(mut['patch']).resolve())], cwd=scratch,
                                   capture_output=True, text=True)
                if r.returncode:
                    print(f"{mut['id']}: patch does not apply: {r.stderr.strip()[:300]}")
                    continue
            else:
                apply_edit(scratch, mut)
            suite = ('-', '')
            if args.suite:
                ok, tail = run_suite(scratch)
                suite = ('pass' if ok else 'FAIL', tail)
            for prop in mut['prop'].split(','):
                rc, viol, msg, wall = run_check(scratch, prop, args.tier)
                verdict = 'CAUGHT' if (rc == 1 and viol) else ('inconclusive' if rc == 2 else 'MISSED')
                rows.append((mut['id'], prop, suite[0], verdict, f'{wall:.0f}s', msg))
                print(f"{mut['id']:<34} {prop} suite={suite[0]:<5} {verdict:<12} {wall:5.0f}s  {msg}", flush=True)
        finally:
            os.chdir('/')
            shutil.rmtree(scratch, ignore_errors=True)
    if args.write:
        out = VERIF / 'mutants' / 'RESULTS.md'
        out.parent.mkdir(exist_ok=True)
        lines = ['| mutant | property | repo suite | check verdict | wall | first report |', '|---|---|---|---|---|---|']
        lines += [f'| {a} | {b} | {c} | {d} | {e} | {f.replace("|", "/")} |' for a, b, c, d, e, f in rows]
        out.write_text('\n'.join(lines) + '\n')
    missed = [r for r in rows if r[3] != 'CAUGHT']
    return 1 if missed else 0


if __name__ == '__main__':
    sys.exit(main())
