"""Self-validation: apply small edits to a scratch copy of the repository and confirm the checks fire.

usage: python -m tc_verif.mutants [--prop C17] [--id name] [--suite] [--tier quick]
Results table -> /verif/mutants/RESULTS.md (only when run over all mutants with --write).
Scratch copies live under tempfile.mkdtemp() outside /repo and /verif and are removed after each mutant.
"""
from __future__ import annotations

import argparse
import os
import shutil
import subprocess
import sys
import tempfile
import time
from pathlib import Path

VERIF = Path(__file__).resolve().parent.parent
REPO = Path('/repo')

# (id, property, file under src/taskchain, old, new)
M = []


def m(id, prop, file, old, new, count=1):
    M.append({'id': id, 'prop': prop, 'file': file, 'old': old, 'new': new, 'count': count})


# ---- C17 -----------------------------------------------------------------------------------------------
m('c17-drop-sort', 'C17', 'utils/threading.py',
  "for _, res in sorted(chunk_result, key=lambda ires: ires[0]) if sort else chunk_result:",
  "for _, res in chunk_result:")
m('c17-sort-by-result', 'C17', 'utils/iter.py',
  "return [res for _, res in sorted(result, key=lambda ires: ires[0])]",
  "return [res for _, res in sorted(result, key=lambda ires: ires[1])]")
m('c17-chunk-tail', 'C17', 'utils/iter.py',
  "    if result_size > 0:\n        yield result", "    if result_size > 1:\n        yield result")
m('c17-iter-nosort', 'C17', 'utils/iter.py',
  "return [res for _, res in sorted(result, key=lambda ires: ires[0])]",
  "return [res for _, res in result]")
m('c17-swallow-exc', 'C17', 'utils/threading.py',
  "                to_append = await output_value\n",
  "                try:\n                    to_append = await output_value\n                except Exception:\n                    continue\n")

# ---- C10 -----------------------------------------------------------------------------------------------
m('c10-first-match', 'C10', 'task.py',
  "    if len(matching_tasks) > 1:\n        raise KeyError(f'Ambiguous task name", "    if len(matching_tasks) > 99:\n        raise KeyError(f'Ambiguous task name")
m('c10-no-priority', 'C10', 'task.py',
  "            if all(_is_less_nested(cand, t) for t in matching_tasks):", "            if False:")
m('c10-textual-suffix', 'C10', 'task.py',
  "            if all(_is_less_nested(cand, t) for t in matching_tasks):", "            if all(t.endswith(cand) for t in matching_tasks):")
m('c10-group-endswith', 'C10', 'task.py',
  "            return fullname.split(':')[-1] == name", "            return fullname.endswith(name)")
m('c10-partial-group', 'C10', 'task.py',
  "        if ':' in fullname and ':' not in name:\n            return fullname.split(':')[-1] == name",
  "        if ':' in fullname:\n            return fullname.endswith(':' + name)")
m('c10-ns-ignored', 'C10', 'task.py',
  "        if (namespace or not determine_namespace) and fullnamespace != namespace:",
  "        if (namespace or not determine_namespace) and not fullnamespace.endswith(namespace):")

# ---- C11 -----------------------------------------------------------------------------------------------
m('c11-top-level-only', 'C11', 'utils/data.py',
  "                if not _traverse(v) and _is_valid(v):\n                    o[k] = fce(v)", "                if not isinstance(v, (list, dict)) and _is_valid(v):\n                    o[k] = fce(v)")
m('c11-resubstitute', 'C11', 'utils/data.py',
  "        if isinstance(string, ReprStr):\n            return string\n", "")
m('c11-greedy', 'C11', 'utils/data.py', "re.subn(r'{(.*?)}', _replace, string)", "re.subn(r'{(.*)}', _replace, string)")
m('c11-no-deepcopy', 'C11', 'utils/data.py', "    def __deepcopy__(self, memo):\n        return self.__copy__()\n", "")
m('c11-copy-requote', 'C11', 'utils/data.py', "        copied.repr = self.repr\n", "        copied.repr = repr(self.repr)\n")
m('c11-list-skip-first', 'C11', 'utils/data.py',
  "            for i, v in enumerate(o):\n                if not _traverse(v) and _is_valid(v):", "            for i, v in enumerate(o):\n                if i and not _traverse(v) and _is_valid(v):")
m('c11-context-uses-not-substituted', 'C11', 'config.py',
  "        if self.global_vars is not None:\n            self.apply_global_vars(self.global_vars)", "        if self.global_vars is not None and 'uses' not in self._data:\n            self.apply_global_vars(self.global_vars)")
# (returning the plain str when only undefined placeholders occurred is behaviourally equivalent: not a mutant)
m('c11-repr-substituted', 'C11', 'utils/data.py', "            return ReprStr(new_string, string)", "            return ReprStr(new_string, new_string)")

# ---- C16 -----------------------------------------------------------------------------------------------
m('c16-off-by-one', 'C16', 'cache.py', "                    if i - 1 < len(args):", "                    if i - 1 <= len(args) and i - 1 < len(args) + 0 and i < len(args):")
m('c16-no-defaults', 'C16', 'cache.py', "                    if parameter.default != Parameter.empty and arg not in kwargs:", "                    if False:")
m('c16-no-sort-keys', 'C16', 'cache.py', "cache_key = orig_json.dumps(key_kwargs, sort_keys=True)", "cache_key = orig_json.dumps(key_kwargs)")
m('c16-version-dropped', 'C16', 'cache.py', "                if self.version is not None:\n                    subcache_name = f'{subcache_name}.{self.version}'\n", "")
m('c16-ignore-dropped', 'C16', 'cache.py', "key_kwargs = {k: v for k, v in kwargs.items() if k not in self.ignore_params}", "key_kwargs = dict(kwargs)")
m('c16-only-cache-computes', 'C16', 'cache.py', "            if only_cache:\n                return cache.get(cache_key)\n", "")
m('c16-store-runs-method', 'C16', 'cache.py', "                computer = lambda: store_cache_value  # noqa: E731", "                computer = lambda: method(obj, *args, **kwargs) and store_cache_value  # noqa: E731")
m('c16-force-ignored-inmemory', 'C16', 'cache.py', "        if key not in self._memory[get_ident()] or force:", "        if key not in self._memory[get_ident()]:")
m('c16-method-name-dropped', 'C16', 'cache.py', "                subcache_name = method.__name__\n", "                subcache_name = 'methods'\n")
m('c16-str-key', 'C16', 'cache.py', "cache_key = orig_json.dumps(key_kwargs, sort_keys=True)", "cache_key = str(sorted((k, str(v)) for k, v in key_kwargs.items()))")

# ---- C14 -----------------------------------------------------------------------------------------------
m('c14-skip-key-check', 'C14', 'cache.py', "            if key != loaded['key']:", "            if False:")
m('c14-catch-cacheexception', 'C14', 'cache.py', "            except CacheException as error:\n                raise error\n            except Exception as error:\n                logger.warning(f'Cannot load cached value, {key=}, {filepath=}.')\n                logger.exception(error)\n\n        with lock:",
  "            except Exception as error:\n                logger.warning(f'Cannot load cached value, {key=}, {filepath=}.')\n\n        with lock:")
m('c14-save-before-compute', 'C14', 'cache.py', "            value = computer()\n            self.save_value(filepath, key, value)", "            self.save_value(filepath, key, None)\n            value = computer()\n            self.save_value(filepath, key, value)")
m('c14-subcache-self', 'C14', 'cache.py', "        return self.__class__(self.directory / directory)", "        return self")
m('c14-get-computes-nothing-but-raises', 'C14', 'cache.py', "        if filepath_exists:\n            try:\n                return self.load_value(filepath, key)\n            except CacheException as error:\n                raise error\n            except Exception as error:\n                logger.warning(f'Cannot load cached value, {key=}, {filepath=}.')\n                logger.exception(error)\n        return NO_VALUE",
  "        if filepath_exists:\n            return self.load_value(filepath, key)\n        return NO_VALUE")
m('c14-force-ignored', 'C14', 'cache.py', "        if filepath_exists and not force:", "        if filepath_exists:")
# not registered: a truncated file-name hash needs engineered colliding keys, out of reach for sampling
# m('c14-short-hash', 'C14', 'cache.py', "        return directory / f'{key_hash[5:]}.{self.extension}'", "        return directory / f'{key_hash[5:7]}.{self.extension}'")
m('c14-inmem-subcache-shared', 'C14', 'cache.py', "            self._subcaches[get_ident()][name] = InMemoryCache()", "            self._subcaches[get_ident()][name] = self")
m('c14-key-strip', 'C14', 'cache.py', "        key_hash = sha256(key.encode()).hexdigest()", "        key_hash = sha256(key.strip().encode()).hexdigest()")

# ---- C06 -----------------------------------------------------------------------------------------------
m('c06-falsy-guard', 'C06', 'data.py', "        if not hasattr(self, '_value') or self._value is None:", "        if not hasattr(self, '_value') or not self._value:")
# (dropping OPT_SORT_KEYS is equivalent under the oracle: mapping order is a declared don't-care)
m('c06-row-split', 'C06', 'utils/io.py', "            yield json.loads(row.strip())", "            yield json.loads(row.split()[0]) if row.split() else None")
m('c06-glob-lexicographic', 'C06', 'data.py', "sorted(self.path.glob('*.npy'), key=lambda f: int(f.name.split('.')[0]))", "sorted(self.path.glob('*.npy'))")
m('c06-np-float-cast', 'C06', 'data.py', "            np.save(str(path), self.value)", "            np.save(str(path), np.asarray(self.value, dtype=float) if self.value.dtype.kind == 'f' else self.value)")
m('c06-json-ascii', 'C06', 'data.py', "        self._value = json.load(self.path.open())", "        self._value = json.load(self.path.open(encoding='latin-1'))")
m('c06-generated-skip-none', 'C06', 'utils/io.py', "            f.write(json.dumps(j) + '\\n')", "            if j is not None:\n                f.write(json.dumps(j) + '\\n')")
m('c06-dir-copy-flat', 'C06', 'data.py', "    def save(self):\n        _replace_dir(self.tmp_path, self.path)\n        self._value = self._dir = self.path", "    def save(self):\n        self.path.mkdir()\n        for f in self.tmp_path.iterdir():\n            if f.is_file():\n                shutil.move(str(f), str(self.path / f.name))\n        shutil.rmtree(self.tmp_path)\n        self._value = self._dir = self.path")
m('c06-load-touches-file', 'C06', 'data.py', "        self._value = json.load(self.path.open())\n        return self._value", "        self._value = json.load(self.path.open())\n        json.dump(self._value, self.path.open('w'), sort_keys=True)\n        return self._value")
m('c06-pandas-csv', 'C06', 'data.py', "            self.value.to_pickle(path)", "            self.value.reset_index(drop=True).to_pickle(path) if isinstance(self.value.index, pd.RangeIndex) is False and len(self.value) == 0 else self.value.to_pickle(path)")

# ---- C08 -----------------------------------------------------------------------------------------------
m('c08-no-acyclic-check', 'C08', 'chain.py', "        if not nx.is_directed_acyclic_graph(G):\n            raise ValueError('Chain is not acyclic')\n", "")
m('c08-ignore-excluded', 'C08', 'chain.py', "                    if _task_class in excluded_tasks:\n                        return\n", "")
m('c08-root-namespace-inputs', 'C08', 'chain.py', "                    input_task_name = f'{namespace}::{input_task_name}'  # add current namespace to reference", "                    pass")
m('c08-abstract-kept', 'C08', 'chain.py', "                            if task_class.meta.get('abstract', False):\n                                continue\n", "")
m('c08-optional-swallow', 'C08', 'chain.py', "                    if not required:\n                        input_tasks[input_task_name] = default\n                        continue\n                    raise ValueError(f'Input task `{input_task_name}` of task `{task}` not found')",
  "                    input_tasks[input_task_name] = None if required else default\n                    continue")
m('c08-ancestors-for-dependents', 'C08', 'chain.py', "        descendants = nx.descendants(self.graph, task)", "        descendants = nx.ancestors(self.graph, task)")
m('c08-startswith-ns', 'C08', 'chain.py', "namespace and not input_task_name.startswith(f'{namespace}::'):", "namespace and not input_task_name.startswith(namespace):")
m('c08-prefix-import', 'C08', 'utils/clazz.py', "    if not has_wiled_card and parts[-1] in module.__dict__:", "    if False:")
m('c08-first-pass-sharing', 'C08,C09', 'chain.py', "task_registry=None if self._parameter_mode else self._task_registry)", "task_registry={} if self._parameter_mode else self._task_registry)")
# ---- C09 -----------------------------------------------------------------------------------------------
m('c09-ns-before-global', 'C09', 'config.py', "        self._data.update(deepcopy(context.data))\n        if self.namespace:\n            for namespace, data in context.for_namespaces.items():\n                if self.namespace == namespace:\n                    self._data.update(deepcopy(data))",
  "        if self.namespace:\n            for namespace, data in context.for_namespaces.items():\n                if self.namespace == namespace:\n                    self._data.update(deepcopy(data))\n        self._data.update(deepcopy(context.data))")
m('c09-ns-prefix-match', 'C09', 'config.py', "                if self.namespace == namespace:", "                if self.namespace.startswith(namespace):")
m('c09-no-deepcopy', 'C09', 'config.py', "        self._data.update(deepcopy(context.data))", "        self._data.update(context.data)")
m('c09-first-context-wins', 'C09', 'config.py', "        for context in contexts:\n            data.update(context.data)", "        contexts = list(contexts)[::-1]\n        for context in contexts:\n            data.update(context.data)")
m('c09-part-not-rewritten', 'C09', 'config.py', "                self._data['uses'][i] = str(self._filepath) + use", "                self._data['uses'][i] = use")
m('c09-conflict-eq', 'C09', 'chain.py', "tasks[task_name].get_config() is not _task.get_config():", "tasks[task_name].get_config() != _task.get_config():")
m('c09-ctx-uses-deleted', 'C09', 'config.py', "        context = deepcopy(context)\n        current_context_data = context.for_namespaces[namespace] if namespace else context\n", "")
m('c09-dtype-unchecked', 'C09', 'parameter.py', "        if self.dtype is not None:\n            if (", "        if self.dtype is not None and self.dtype is not int:\n            if (")
m('c09-required-falls-to-none', 'C09', 'parameter.py', "            if self.required:\n                raise ValueError(f'Value for parameter `{self}` not found in config `{config}`')\n            value = self.default", "            value = None if self.required else self.default")
m('c09-name-in-config-ignored', 'C09', 'parameter.py', "        if self.name_in_config in config:\n            value = config[self.name_in_config]", "        if self.name in config:\n            value = config[self.name]")
m('c09-context-ns-not-composed', 'C09', 'config.py', "sub_namespace = f'{context.namespace}::{matched[2]}' if context.namespace else matched[2]", "sub_namespace = matched[2]")
# ---- C12 -----------------------------------------------------------------------------------------------
m('c12-separator', 'C12', 'parameter.py', "            return '###'.join(reprs)", "            return '##'.join(reprs)")
m('c12-hash-length', 'C12', 'chain.py', ".hexdigest()[:32]", ".hexdigest()[:40]")
m('c12-sha1', 'C12', 'chain.py', "        return sha256(f'{parameter_repr}$$${input_tasks_repr}'.encode()).hexdigest()[:32]", "        from hashlib import sha1\n        return sha1(f'{parameter_repr}$$${input_tasks_repr}'.encode()).hexdigest()[:32]")
m('c12-unsorted-params', 'C12', 'parameter.py', "        for name, parameter in sorted(self._parameters.items()):", "        for name, parameter in self._parameters.items():")
m('c12-str-repr', 'C12', 'utils/clazz.py', "        return f\"'{obj}'\"", "        return repr(obj)")
m('c12-group-underscore', 'C12', 'task.py', "        path = self._config.base_dir / self.slugname.replace(':', '/')", "        path = self._config.base_dir / self.slugname.replace(':', '_')")
m('c12-log-name', 'C12', 'data.py', "        return self._path.parent / f'{self._name}.log'", "        return self._path.parent / f'{self._name}.txt'")
m('c12-unsorted-inputs', 'C12', 'chain.py', "for n, it in sorted(self.input_tasks.items()))", "for n, it in self.input_tasks.items())")
m('c12-ns-kept-in-input-names', 'C12', 'chain.py', "                _name = _name[len(outer_namespace) + 2 :]", "                pass")
m('c12-dict-unsorted', 'C12', 'utils/clazz.py', "for key, val in sorted(obj.items())", "for key, val in obj.items()")

# ---- C01 -----------------------------------------------------------------------------------------------
m('c01-inputs-not-hashed', 'C01', 'chain.py', "return sha256(f'{parameter_repr}$$${input_tasks_repr}'.encode()).hexdigest()[:32]", "return sha256(f'{parameter_repr}$$$'.encode()).hexdigest()[:32]")
m('c01-first-param-dropped', 'C01', 'parameter.py', "        for name, parameter in sorted(self._parameters.items()):\n            repr = parameter.repr", "        for name, parameter in sorted(self._parameters.items())[1:] if len(self._parameters) > 2 else sorted(self._parameters.items()):\n            repr = parameter.repr")
m('c01-forced-ignored', 'C07', 'task.py', "and self._data.exists() and not self._forced:", "and self._data.exists():")
m('c01-first-pass-sharing', 'C01', 'chain.py', "task_registry=None if self._parameter_mode else self._task_registry)", "task_registry={} if self._parameter_mode else self._task_registry)")
m('c01-positional-run-args', 'C01', 'task.py', "            args.append(input_tasks_arg if input_tasks_arg is not NO_VALUE else parameter_arg)\n        return args",
  "            args.append(input_tasks_arg if input_tasks_arg is not NO_VALUE else parameter_arg)\n        return sorted(args, key=lambda a: str(type(a))) if len(args) > 2 else args")
m('c01-context-ns-leak', 'C01', 'config.py', "                if self.namespace == namespace:", "                if self.namespace.split('::')[-1] == namespace.split('::')[-1]:")
m('c01-load-any-key', 'C01', 'data.py', "    def exists(self) -> bool:\n        return self.path.exists()\n\n    def delete(self):\n        self.path.unlink()",
  "    def exists(self) -> bool:\n        return self.path.exists() or any(self._base_dir.glob(f'*.{self.extension}'))\n\n    def delete(self):\n        self.path.unlink()")
# ---- C04 -----------------------------------------------------------------------------------------------
m('c04-has-data-via-data', 'C04', 'task.py', "        return self._data_without_value.exists()", "        return self.data.exists()")
m('c04-eager-inputs', 'C04', 'task.py', "        if self._data is not None and self._data.is_persisting and self._data.exists() and not self._forced:\n            self._data.load(self.data_type)",
  "        _ = [t.value for t in self.input_tasks.values() if isinstance(t, Task)]\n        if self._data is not None and self._data.is_persisting and self._data.exists() and not self._forced:\n            self._data.load(self.data_type)")
# (re-loading instead of keeping the loaded value in memory runs nothing: not a C04 violation; C13 observes re-reads)
m('c04-tasks-df-computes', 'C04', 'chain.py', "                'computed': task.has_data if task.data_path else None,", "                'computed': (task.value is not None) if task.data_path else None,")
m('c04-run-info-computes', 'C04', 'task.py', "        data = self._data_without_value\n        return data.load_run_info()", "        data = self.data\n        return data.load_run_info()")
m('c04-exists-needs-nonempty', 'C04', 'data.py', "    def exists(self) -> bool:\n        return self.path.exists()\n\n    def delete(self):\n        self.path.unlink()",
  "    def exists(self) -> bool:\n        return self.path.exists() and self.path.stat().st_size > 3\n\n    def delete(self):\n        self.path.unlink()")
# ---- C07 -----------------------------------------------------------------------------------------------
m('c07-ancestors', 'C07', 'chain.py', "            forced_tasks |= self.dependent_tasks(task, include_self=True)", "            forced_tasks |= self.required_tasks(task, include_self=True)")
m('c07-not-self', 'C07', 'chain.py', "            forced_tasks |= self.dependent_tasks(task, include_self=True)", "            forced_tasks |= self.dependent_tasks(task, include_self=False)")
m('c07-delete-always', 'C07', 'task.py', "        if delete_data:\n            data = self._data_without_value", "        if True:\n            data = self._data_without_value")
m('c07-data-kept', 'C07', 'task.py', "        self._forced = True\n        self._data = None\n        return self", "        self._forced = True\n        return self")
m('c07-recompute-named-only', 'C07', 'chain.py', "            for task in list(forced_tasks)[::-1]:\n                _ = task.value", "            for task in [self.get_task(t) for t in tasks]:\n                _ = task.value")
m('c07-delete-ignored', 'C07', 'chain.py', "            task.force(delete_data=delete_data)", "            task.force()")
m('c07-last-named-only', 'C07', 'chain.py', "            forced_tasks |= self.dependent_tasks(task, include_self=True)", "            forced_tasks = self.dependent_tasks(task, include_self=True)")
m('c07-continues-delete-raises', 'C07', 'data.py', "        shutil.rmtree(str(self.tmp_path), ignore_errors=True)", "        shutil.rmtree(str(self.tmp_path))")

# ---- C18 -----------------------------------------------------------------------------------------------
m('c18-log-append', 'C18', 'data.py', "        return logging.FileHandler(self.log_path, mode='w')", "        return logging.FileHandler(self.log_path, mode='a')")
m('c18-run-info-before-run', 'C18', 'task.py', "                self._init_run_info()\n", "                self._init_run_info()\n                if self._data and self._data.is_logging:\n                    self._data.save_run_info(dict(self._run_info, log=list(self._run_info['log'])))\n")
m('c18-run-info-not-reset', 'C18', 'task.py', "            'log': [],\n        }", "            'log': getattr(self, '_run_info', {}).get('log', []),\n        }")
m('c18-handler-never-removed', 'C18', 'task.py', "                    self.logger.removeHandler(data_log_handler)\n                    if data_log_handler is not None:\n                        data_log_handler.close()\n", "                    pass\n")
m('c18-handler-leak-on-failure', 'C18', 'task.py', "                try:\n                    run_result = self.run(*self._get_run_arguments())\n                    self.logger.info(f'{self} - run ended')\n                finally:\n                    # also after failed run, otherwise later runs in this process would be logged to this file too\n                    self.logger.removeHandler(data_log_handler)\n                    if data_log_handler is not None:\n                        data_log_handler.close()",
  "                run_result = self.run(*self._get_run_arguments())\n                self.logger.info(f'{self} - run ended')\n                self.logger.removeHandler(data_log_handler)")
m('c18-input-keys-missing', 'C18', 'task.py', "                self._run_info['input_tasks'] = self._config.input_tasks", "                self._run_info['input_tasks'] = {k: v[:8] for k, v in self._config.input_tasks.items()}")
m('c18-params-from-default', 'C18', 'task.py', "            'parameters': {p.name: p.value_repr() for p in self.parameters.values()},", "            'parameters': {p.name: repr(p.default) for p in self.parameters.values()},")
m('c18-run-info-skipped-on-rerun', 'C18', 'task.py', "        if self._data is not None and self._data.is_logging:\n            self._data.save_run_info(self._run_info)", "        if self._data is not None and self._data.is_logging and not self._data.run_info_path.exists():\n            self._data.save_run_info(self._run_info)")

# ---- C13 -----------------------------------------------------------------------------------------------
m('c13-registry-by-name', 'C13', 'chain.py', "            key = task.slugname, task.name_for_persistence\n", "            key = task.slugname, ''\n")
m('c13-registry-not-passed', 'C13', 'chain.py', "            self.chains[config.name] = Chain(config, self._tasks, parameter_mode=self.parameter_mode)", "            self.chains[config.name] = Chain(config, None, parameter_mode=self.parameter_mode)")
m('c13-force-first-chain-only', 'C13', 'chain.py', "        for chain in self.chains.values():\n            chain.force(tasks, **kwargs)", "        for chain in list(self.chains.values())[:1]:\n            chain.force(tasks, **kwargs)")
m('c13-shared-ns-from-config', 'C13', 'chain.py', "            namespace = '::'.join(task_name.split('::')[:-1])\n", "            namespace = task.get_config().namespace\n")
m('c13-registry-key-no-slug', 'C13', 'chain.py', "            key = task.slugname, task.name_for_persistence\n", "            key = task.name_for_persistence\n")
m('c13-force-kwargs-dropped', 'C13', 'chain.py', "        for chain in self.chains.values():\n            chain.force(tasks, **kwargs)", "        for chain in self.chains.values():\n            chain.force(tasks)")

# ---- C03 -----------------------------------------------------------------------------------------------
m('c03-short-digest', 'C03', 'chain.py', ".hexdigest()[:32]", ".hexdigest()[:2]")
m('c03-list-by-length', 'C03', 'utils/clazz.py', "        return '[' + ', '.join(repr_from_instantiation(val) for val in obj) + ']'", "        return f'[{len(obj)} items]' if len(obj) > 2 else '[' + ', '.join(repr_from_instantiation(val) for val in obj) + ']'")
m('c03-inputs-not-hashed', 'C03', 'chain.py', "return sha256(f'{parameter_repr}$$${input_tasks_repr}'.encode()).hexdigest()[:32]", "return sha256(f'{parameter_repr}$$$'.encode()).hexdigest()[:32]")
m('c03-object-args-dropped', 'C03', 'parameter.py', "        args_repr = ', '.join(f'{k}={repr(v)}' for k, v in sorted(args.items()))", "        args_repr = ', '.join(f'{k}' for k, v in sorted(args.items()))")
m('c03-dict-values-dropped', 'C03', 'utils/clazz.py', "f\"{repr_from_instantiation(key)}: {repr_from_instantiation(val)}\" for key, val in sorted(obj.items())", "f\"{repr_from_instantiation(key)}\" for key, val in sorted(obj.items())")
m('c03-str-strip', 'C03', 'utils/clazz.py', "        return f\"'{obj}'\"", "        return f\"'{obj.strip()}'\"")
# (equivalent under the property's exclusions, removed) 
# (equivalent under the property's exclusions, removed) 
# (equivalent under the property's exclusions, removed) 
m('c03-value-repr-truncated', 'C03', 'parameter.py', "        return repr_from_instantiation(self.value)", "        return repr_from_instantiation(self.value)[:200]")

# ---- C02 -----------------------------------------------------------------------------------------------
m('c02-unsorted-params', 'C02', 'parameter.py', "        for name, parameter in sorted(self._parameters.items()):", "        for name, parameter in self._parameters.items():")
m('c02-config-name-in-key', 'C02', 'chain.py', "return sha256(f'{parameter_repr}$$${input_tasks_repr}'.encode()).hexdigest()[:32]", "return sha256(f'{self.original_config.name}{parameter_repr}$$${input_tasks_repr}'.encode()).hexdigest()[:32]")
m('c02-namespace-in-key', 'C02', 'chain.py', "                _name = _name[len(outer_namespace) + 2 :]", "                pass")
m('c02-ignored-persisted', 'C02', 'parameter.py', "        if self.ignore_persistence:\n            return None\n", "")
m('c02-default-persisted', 'C02', 'parameter.py', "        if self.dont_persist_default_value and self.value == self.default:\n            return None\n", "")
m('c02-substituted-repr', 'C02', 'utils/data.py', "            return ReprStr(new_string, string)", "            return ReprStr(new_string, new_string)")
m('c02-dict-unsorted', 'C02', 'utils/clazz.py', "for key, val in sorted(obj.items())", "for key, val in obj.items()")
m('c02-optional-absent-in-key', 'C02', 'chain.py', "            if isinstance(task, Task)\n        }", "            if isinstance(task, Task)\n        }\n        self.input_tasks.update({name: 'absent' for name, task in original_task.input_tasks.items() if not isinstance(task, Task)})")
m('c02-context-marks-key', 'C02', 'chain.py', "return sha256(f'{parameter_repr}$$${input_tasks_repr}'.encode()).hexdigest()[:32]", "return sha256(f'{parameter_repr}$$${input_tasks_repr}{\"ctx\" if self.context is not None else \"\"}'.encode()).hexdigest()[:32]")
m('c02-input-order-declared', 'C02', 'chain.py', "for n, it in sorted(self.input_tasks.items()))", "for n, it in self.input_tasks.items())")
m('c02-ns-replace-all', 'C02', 'chain.py', "                _name = _name[len(outer_namespace) + 2 :]", "                _name = _name.replace(f'{outer_namespace}::', '')")

# ---- C19 -----------------------------------------------------------------------------------------------
m('c19-mock-persisting', 'C19', 'utils/testing.py', "        data_class = InMemoryData\n", "        pass\n")
m('c19-params-ignored-with-default', 'C19', 'parameter.py', "        if self.name_in_config in config:\n            value = config[self.name_in_config]", "        if self.name_in_config in config and (self.required or config.name != 'test'):\n            value = config[self.name_in_config]")
m('c19-mock-by-class-name', 'C19', 'utils/testing.py', "            name = mock_task if isinstance(mock_task, str) else mock_task.fullname(self.config)", "            name = mock_task if isinstance(mock_task, str) else mock_task.__name__.lower()")
m('c19-mock-value-deepcopied', 'C19', 'utils/testing.py', "        self._value = value\n", "        import copy\n        self._value = copy.deepcopy(value) if isinstance(value, (list, dict)) and not value else (value or None)\n")
m('c19-callable-mock-called', 'C19', 'utils/testing.py', "    def value(self) -> Any:\n        return self._value", "    def value(self) -> Any:\n        return self._value() if callable(self._value) else self._value")
m('c19-no-init-objects', 'C19', 'utils/testing.py', "        self._build_graph()\n        self._init_objects()", "        self._build_graph()")
m('c19-missing-input-tolerated', 'C19', 'utils/testing.py', "        self._process_dependencies(self.tasks)\n", "        try:\n            self._process_dependencies(self.tasks)\n        except ValueError:\n            for t in self.tasks.values():\n                if t._input_tasks is None:\n                    from taskchain.task import InputTasks\n                    t.set_input_tasks(InputTasks())\n")
m('c19-shared-base-dir', 'C19', 'utils/testing.py', "            base_dir = Path(tempfile.TemporaryDirectory().name)", "            base_dir = Path(tempfile.gettempdir()) / 'taskchain_tests'")

# ---- C20 -----------------------------------------------------------------------------------------------
m('c20-move-instead-of-copy', 'C20', 'utils/migration.py', "                copyfile(old_task.data_path, new_task.data_path)", "                import shutil\n                shutil.move(old_task.data_path, new_task.data_path)")
m('c20-files-only', 'C20', 'utils/migration.py', "            else:\n                copytree(old_task.data_path, new_task.data_path)", "            else:\n                pass")
m('c20-dry-ignored', 'C20', 'utils/migration.py', "        if dry:\n            print('    to copy')", "        if False:\n            print('    to copy')")
m('c20-part-dropped', 'C20', 'utils/migration.py', ", context=config.context, part=config._part)", ", context=config.context)")
m('c20-pair-by-fullname', 'C20', 'utils/migration.py', "        .chain()\n        .tasks\n    )", "        .chain()\n        .tasks\n    )\n    new_chain = {t.fullname: t for t in new_chain.values()}")
m('c20-context-dropped', 'C20', 'utils/migration.py', "global_vars=config.global_vars, context=config.context, part=config._part)", "global_vars=config.global_vars, part=config._part)")
m('c20-global-vars-dropped', 'C20', 'utils/migration.py', "Config(target_dir, config._filepath, global_vars=config.global_vars,", "Config(target_dir, config._filepath,")
m('c20-skip-empty', 'C20', 'utils/migration.py', "        if not old_task.has_data:\n", "        if not old_task.has_data or (old_task.data_path.is_file() and old_task.data_path.stat().st_size == 0):\n")
m('c20-copytree-symlink', 'C20', 'utils/migration.py', "                copytree(old_task.data_path, new_task.data_path)", "                new_task.data_path.symlink_to(old_task.data_path)")
m('c20-suffix-from-old', 'C20', 'utils/migration.py', "                copytree(old_task.data_path, new_task.data_path)", "                copytree(old_task.data_path, str(new_task.data_path) + old_task.data_path.suffix)")

# ---- C05 -----------------------------------------------------------------------------------------------
m('c05-json-in-place', 'C05', 'data.py', "        with self._publishing() as path, path.open('w') as f:\n            json.dump(self.value, f, indent=2, sort_keys=True)", "        json.dump(self.value, self.path.open('w'), indent=2, sort_keys=True)")
m('c05-numpy-in-place', 'C05', 'data.py', "        with self._publishing() as path:\n            np.save(str(path), self.value)", "        np.save(str(self.path), self.value)")
m('c05-dir-copy-publish', 'C05', 'data.py', "    def save(self):\n        _replace_dir(self.tmp_path, self.path)\n        self._value = self._dir = self.path", "    def save(self):\n        if self.path.exists():\n            shutil.rmtree(self.path)\n        shutil.copytree(str(self.tmp_path), str(self.path))\n        shutil.rmtree(self.tmp_path)\n        self._value = self._dir = self.path")
m('c05-skip-on-run-error', 'C05', 'task.py', "                if self._data is not None:\n                    self._data.on_run_error()\n                    self._data = None", "                if self._data is not None:\n                    self._data = None")
m('c05-save-before-type-check', 'C05', 'task.py', "        if isclass(self.data_type) and issubclass(self.data_type, Data) and isinstance(run_result, self.data_type):", "        if self._data is not None and self._data.is_persisting and not isinstance(self._data, DirData) and not (isclass(self.data_type) and issubclass(self.data_type, Data)):\n            self._data.set_value(run_result)\n            self._data.save()\n        if isclass(self.data_type) and issubclass(self.data_type, Data) and isinstance(run_result, self.data_type):")
m('c05-process-result-outside-try', 'C05', 'task.py', "                        data_log_handler.close()\n                self._process_run_result(run_result)\n            except Exception as error:\n                if self._data is not None:\n                    self._data.on_run_error()\n                    self._data = None\n                raise error\n", "                        data_log_handler.close()\n            except Exception as error:\n                if self._data is not None:\n                    self._data.on_run_error()\n                    self._data = None\n                raise error\n            self._process_run_result(run_result)\n")
m('c05-data-kept-after-error', 'C05', 'task.py', "                    self._data.on_run_error()\n                    self._data = None", "                    self._data.on_run_error()")
m('c05-publish-before-write', 'C05', 'data.py', "        try:\n            yield tmp_path\n            os.replace(tmp_path, self.path)", "        try:\n            tmp_path.touch()\n            os.replace(tmp_path, self.path)\n            yield self.path")
m('c05-replace-dir-rmtree-first', 'C05', 'data.py', "    if path.exists():\n        os.rename(path, old_dir)\n    os.rename(new_dir, path)", "    if path.exists():\n        shutil.rmtree(path)\n    os.rename(new_dir, path)")
m('c05-dir-tmp-not-wiped', 'C05', 'data.py', "        if self.tmp_path.exists():\n            shutil.rmtree(self.tmp_path)\n        self.tmp_path.mkdir()\n        self._dir = self.tmp_path", "        self.tmp_path.mkdir(exist_ok=True)\n        self._dir = self.tmp_path")
m('c05-continues-tmp-wiped', 'C05', 'data.py', "        if not self.tmp_path.exists():\n            self.tmp_path.mkdir()\n        self._dir = self.tmp_path", "        if self.tmp_path.exists():\n            shutil.rmtree(self.tmp_path)\n        self.tmp_path.mkdir()\n        self._dir = self.tmp_path")
m('c05-lazy-no-tmp', 'C05', 'data.py', "        write_jsons(value, self.tmp_path)\n        shutil.move(str(self.tmp_path), str(self.path))", "        write_jsons(value, self.path)")

# ---- C15 -----------------------------------------------------------------------------------------------
m('c15-no-second-lock', 'C15', 'cache.py', "        with lock:\n            logger.debug(f'Computing cache for key {key} | file: {filepath}')\n            value = computer()\n            self.save_value(filepath, key, value)\n        return value",
  "        logger.debug(f'Computing cache for key {key} | file: {filepath}')\n        value = computer()\n        self.save_value(filepath, key, value)\n        return value")
m('c15-load-error-propagates', 'C15', 'cache.py', "        if filepath_exists and not force:\n            try:\n                return self.load_value(filepath, key)\n            except CacheException as error:\n                raise error\n            except Exception as error:\n                logger.warning(f'Cannot load cached value, {key=}, {filepath=}.')\n                logger.exception(error)\n\n        with lock:",
  "        if filepath_exists and not force:\n            return self.load_value(filepath, key)\n\n        with lock:")
m('c15-save-outside-lock', 'C15', 'cache.py', "            value = computer()\n            self.save_value(filepath, key, value)\n        return value", "            value = computer()\n        self.save_value(filepath, key, value)\n        return value")
m('c15-get-load-error-propagates', 'C15', 'cache.py', "        if filepath_exists:\n            try:\n                return self.load_value(filepath, key)\n            except CacheException as error:\n                raise error\n            except Exception as error:\n                logger.warning(f'Cannot load cached value, {key=}, {filepath=}.')\n                logger.exception(error)\n        return NO_VALUE",
  "        if filepath_exists:\n            return self.load_value(filepath, key)\n        return NO_VALUE")
m('c15-recheck-missing-under-lock-returns-stale', 'C14', 'cache.py', "            value = computer()\n            self.save_value(filepath, key, value)", "            value = computer()\n            if not filepath.exists() or force:\n                self.save_value(filepath, key, value)")
m('c15-shared-reentrant-lock', 'C15', 'cache.py', "        lock = FileLock(str(filepath) + '.lock', mode=0o664)\n        with lock:\n            filepath_exists = filepath.exists()\n        if filepath_exists and not force:",
  "        if not hasattr(self, '_locks'):\n            self._locks = {}\n        lock = self._locks.setdefault(str(filepath), FileLock(str(filepath) + '.lock', mode=0o664, thread_local=False))\n        with lock:\n            filepath_exists = filepath.exists()\n        if filepath_exists and not force:")
m('c15-lockfree-fast-path', 'C15', 'cache.py', "        lock = FileLock(str(filepath) + '.lock', mode=0o664)\n        with lock:\n            filepath_exists = filepath.exists()\n        if filepath_exists and not force:",
  "        lock = FileLock(str(filepath) + '.lock', mode=0o664)\n        filepath_exists = filepath.exists()\n        if filepath_exists and not force:")
# (removed: `unlink` + append-write instead of truncate-write under the lock. The only observable difference is that a lock-free load of `get` meets a MISSING file
#  instead of an EMPTY one while the forced writer holds the lock; both end in NO_VALUE, which the property's exclusions allow while a write overlaps -- equivalent)


def make_scratch():
    d = Path(tempfile.mkdtemp(prefix='tcmut-'))
    shutil.copytree(REPO / 'src', d / 'src', ignore=shutil.ignore_patterns('__pycache__', '*.egg-info'))
    shutil.copytree(REPO / 'tests', d / 'tests', ignore=shutil.ignore_patterns('__pycache__'))
    shutil.copy(REPO / 'pyproject.toml', d / 'pyproject.toml')
    return d


def apply_edit(scratch, mut):
    p = scratch / 'src' / 'taskchain' / mut['file']
    s = p.read_text()
    if s.count(mut['old']) < 1:
        raise LookupError(f"mutant {mut['id']}: pattern not found in {mut['file']}")
    p.write_text(s.replace(mut['old'], mut['new'], mut['count']))


def run_suite(scratch):
    env = dict(os.environ, PYTHONPATH=str(scratch / 'src'))
    r = subprocess.run(['/venv/bin/python', '-m', 'pytest', '-q', '-p', 'no:cacheprovider', '-x'], cwd=scratch, env=env,
                       capture_output=True, text=True, timeout=900)
    tail = r.stdout.strip().splitlines()[-1] if r.stdout.strip() else ''
    return r.returncode == 0, tail


def run_check(scratch, prop, tier, extra=()):
    env = dict(os.environ, VERIF_REPO=str(scratch))
    t0 = time.time()
    r = subprocess.run([str(VERIF / 'check'), prop, '--tier', tier, '--no-evidence', *extra], cwd=VERIF, env=env,
                       capture_output=True, text=True, timeout=3600)
    out = r.stdout
    viol = [l for l in out.splitlines() if l.startswith('VIOLATION')]
    first = [l for l in out.splitlines() if l.strip().startswith('violation:')][:1]
    return r.returncode, bool(viol), (first[0].strip()[:200] if first else out.strip().splitlines()[-1][:200] if out.strip() else r.stderr[-200:]), time.time() - t0


def main():
    ap = argparse.ArgumentParser()
    ap.add_argument('--prop')
    ap.add_argument('--id')
    ap.add_argument('--suite', action='store_true', help='also run the repository test-suite on the mutant')
    ap.add_argument('--tier', default='quick')
    ap.add_argument('--patch', help='apply a patch file (git apply) instead of a registered mutant; needs --prop')
    ap.add_argument('--write', action='store_true')
    args = ap.parse_args()
    rows = []
    if args.patch:
        muts = [{'id': Path(args.patch).parent.name, 'prop': args.prop, 'patch': args.patch}]
    else:
        muts = [x for x in M if (not args.prop or x['prop'] == args.prop) and (not args.id or x['id'] == args.id)]
    for mut in muts:
        scratch = make_scratch()
        try:
            if 'patch' in mut:
                subprocess.run(['git', 'init', '-q'], cwd=scratch, check=True)
                r = subprocess.run(['git', 'apply', '--whitespace=nowarn', str(Path(mut['patch']).resolve())], cwd=scratch,
                                   capture_output=True, text=True)
                if r.returncode:
                    print(f"{mut['id']}: patch does not apply: {r.stderr.strip()[:300]}")
                    continue
            else:
                try:
                    apply_edit(scratch, mut)
                except LookupError as e:
                    rows.append((mut['id'], mut['prop'], '-', 'STALE-PATTERN', '-', str(e)))
                    print(f"{mut['id']:<34} STALE: {e}", flush=True)
                    continue
            suite = ('-', '')
            if args.suite:
                ok, tail = run_suite(scratch)
                suite = ('pass' if ok else 'FAIL', tail)
            for prop in mut['prop'].split(','):
                rc, viol, msg, wall = run_check(scratch, prop, args.tier)
                verdict = 'CAUGHT' if (rc == 1 and viol) else ('inconclusive' if rc == 2 else 'MISSED')
                rows.append((mut['id'], prop, suite[0], verdict, f'{wall:.0f}s', msg))
                print(f"{mut['id']:<34} {prop} suite={suite[0]:<5} {verdict:<12} {wall:5.0f}s  {msg}", flush=True)
        finally:
            os.chdir('/')
            shutil.rmtree(scratch, ignore_errors=True)
    if args.write:
        out = VERIF / 'mutants' / 'RESULTS.md'
        out.parent.mkdir(exist_ok=True)
        lines = ['| mutant | property | repo suite | check verdict | wall | first report |', '|---|---|---|---|---|---|']
        lines += [f'| {a} | {b} | {c} | {d} | {e} | {f.replace("|", "/")} |' for a, b, c, d, e, f in rows]
        out.write_text('\n'.join(lines) + '\n')
    missed = [r for r in rows if r[3] != 'CAUGHT']
    return 1 if missed else 0


if __name__ == '__main__':
    sys.exit(main())
