"""Controlled scheduler over the real file caches (taskchain.cache).

Callers run in real threads executing the real FileCache.get / get_or_compute / save_value / load_value.  A sys.monitoring LINE
callback (restricted to those code objects) blocks the calling thread at every statement that touches shared state until the
controller releases it; `taskchain.cache.FileLock` is replaced by a subclass of the real filelock.FileLock that reports
acquire attempts / releases and performs the REAL lock non-blockingly (so a lock that fails to exclude is not masked by the
controller).  Exactly one caller runs at a time; a schedule is the list of controller choices and is replayable.
"""
from __future__ import annotations

import inspect
import re
import sys
import threading
import time

import filelock

WATCHDOG = 15.0
TOOL_ID = 4
SHARED_PATTERNS = re.compile(r'\.exists\(\)|\.open\(|json\.load\(|json\.dump\(|computer\(\)|to_pickle\(|read_pickle\(|np\.save\(|np\.load\(|'
                             r'unlink\(|\.rename\(|os\.replace\(|os\.remove\(|rmtree\(|\.touch\(|\.write_text\(|\.write_bytes\(|\.read_text\(|\.read_bytes\(')


class Inconclusive(Exception):
    pass


class Controller:
    def __init__(self, chooser, gate_all_lines=False):
        self.cond = threading.Condition()
        self.threads = {}          # tid -> state dict
        self.order = []            # caller index by tid
        self.chooser = chooser
        self.trace = []            # (step, caller, gate label)
        self.choices = []          # index chosen among enabled at each decision
        self.branching = []        # number of enabled callers at each decision
        self.step = 0
        self.gate_all_lines = gate_all_lines
        self.gate_lines = {}       # code -> {line: label}
        self.lock_epoch = 0        # bumped at every lock release
        self.events = []           # (step, caller, kind, detail): semantic events for the offline checker

    # ---- called from caller threads -----------------------------------------------------------------------------------
    def gate(self, label):
        tid = threading.get_ident()
        st = self.threads.get(tid)
        if st is None:
            return
        with self.cond:
            st['at'] = label
            st['waiting'] = True
            self.cond.notify_all()
            ok = self.cond.wait_for(lambda: st['go'], WATCHDOG * 4)
            st['go'] = False
            st['waiting'] = False
            if not ok:
                st['timeout'] = True
                raise Inconclusive('caller was never released')

    def note(self, kind, detail=None):
        tid = threading.get_ident()
        st = self.threads.get(tid)
        if st is not None:
            self.events.append((self.step, st['idx'], kind, detail))

    # ---- monitoring ---------------------------------------------------------------------------------------------------
    def instrument(self, functions):
        mon = sys.monitoring
        try:
            mon.use_tool_id(TOOL_ID, 'tc_verif_sched')
        except ValueError:
            pass
        for fn in functions:
            code = fn.__code__
            try:
                src, start = inspect.getsourcelines(fn)
            except OSError:
                src, start = [], code.co_firstlineno
            lines = {}
            for off, text in enumerate(src):
                if SHARED_PATTERNS.search(text) or (self.gate_all_lines and text.strip() and not text.strip().startswith(('def ', '"""', '#', '@'))):
                    lines[start + off] = f'{code.co_name}:{text.strip()[:40]}'
            self.gate_lines[code] = lines
            mon.set_local_events(TOOL_ID, code, mon.events.LINE)
        mon.register_callback(TOOL_ID, mon.events.LINE, self._on_line)

    def uninstrument(self):
        mon = sys.monitoring
        for code in self.gate_lines:
            try:
                mon.set_local_events(TOOL_ID, code, 0)
            except Exception:
                pass
        mon.register_callback(TOOL_ID, mon.events.LINE, None)
        try:
            mon.free_tool_id(TOOL_ID)
        except Exception:
            pass

    def _on_line(self, code, line):
        if threading.get_ident() not in self.threads:
            return
        label = self.gate_lines.get(code, {}).get(line)
        if label is not None:
            self.gate(label)

    # ---- controller loop (main thread) ----------------------------------------------------------------------------------
    def run(self, callers):
        """callers: list of callables; returns when all finished"""
        ths = []
        self.expected = len(callers)
        for i, fn in enumerate(callers):
            t = threading.Thread(target=self._wrap, args=(i, fn), daemon=True)
            ths.append(t)
        for t in ths:
            t.start()
        deadline = time.time() + WATCHDOG * 6
        while True:
            with self.cond:
                ok = self.cond.wait_for(lambda: len(self.threads) == len(callers) and all(s['waiting'] or s['done'] for s in self.threads.values()), WATCHDOG)
                if not ok:
                    raise Inconclusive('a released caller did not reach its next gate (watchdog)')
                live = [s for s in self.threads.values() if not s['done']]
                if not live:
                    break
                enabled = [s for s in live if not (s.get('blocked_epoch') is not None and s['blocked_epoch'] == self.lock_epoch)]
                if not enabled:
                    raise Inconclusive(f'deadlock: every live caller is blocked on a lock: {[(s["idx"], s["at"]) for s in live]}')
                enabled.sort(key=lambda s: s['idx'])
                k = self.chooser(self.step, [s['idx'] for s in enabled], [s['at'] for s in enabled]) % len(enabled)
                self.choices.append(k)
                self.branching.append(len(enabled))
                s = enabled[k]
                self.trace.append((self.step, s['idx'], s['at']))
                self.step += 1
                s['go'] = True
                s['waiting'] = False
                self.cond.notify_all()
            if time.time() > deadline:
                raise Inconclusive('schedule exceeded its watchdog')
        for t in ths:
            t.join(WATCHDOG)

    def _wrap(self, idx, fn):
        tid = threading.get_ident()
        with self.cond:
            self.threads[tid] = {'idx': idx, 'at': 'start', 'waiting': False, 'go': False, 'done': False, 'blocked_epoch': None}
        try:
            with self.cond:
                # wait until every caller is registered, then run up to the first gate (nothing shared happens before it)
                self.cond.wait_for(lambda: len(self.threads) >= self.expected, WATCHDOG)
            fn()
        except Inconclusive:
            pass
        finally:
            with self.cond:
                self.threads[tid]['done'] = True
                self.cond.notify_all()


CURRENT = {'ctl': None}


class GateStr(str):
    """a string that passes a gate while it is being pickled: the scheduler can then run other callers in the MIDDLE of a pickle-based write
    (file already opened and truncated, content not yet complete) although that write is a single statement of the cache code"""

    def __reduce__(self):
        ctl = CURRENT['ctl']
        if ctl is not None and threading.get_ident() in ctl.threads:
            ctl.gate('pickle:mid-write')
        return (str, (str.__str__(self),))


class GatedFileLock(filelock.FileLock):
    """the real flock, taken non-blockingly under the controller's eye"""

    def acquire(self, *args, **kwargs):
        ctl = CURRENT['ctl']
        if ctl is None or threading.get_ident() not in ctl.threads:
            return super().acquire(*args, **kwargs)
        st = ctl.threads[threading.get_ident()]
        timeout = kwargs.get('timeout', args[0] if args else None)
        if timeout is None:
            timeout = self.timeout          # the lock object's own default (negative: wait forever)
        if kwargs.get('blocking') is False or (timeout is not None and timeout >= 0):
            # a caller that does not want to wait (try-lock, or a bounded wait: under the controller nobody else advances meanwhile, so the
            # wait would end as it began): one attempt, failure is reported to the caller as the real lock would
            ctl.gate('lock:try')
            try:
                r = super().acquire(timeout=0)
                ctl.note('acquired', self.lock_file)
                return r
            except filelock.Timeout:
                ctl.note('try_failed', self.lock_file)
                raise
        while True:
            ctl.gate('lock:acquire')
            try:
                r = super().acquire(timeout=0)
                st['blocked_epoch'] = None
                ctl.note('acquired', self.lock_file)
                return r
            except filelock.Timeout:
                st['blocked_epoch'] = ctl.lock_epoch
                ctl.note('blocked', self.lock_file)

    def release(self, force=False):
        ctl = CURRENT['ctl']
        super().release(force=force)
        if ctl is not None and threading.get_ident() in ctl.threads:
            ctl.lock_epoch += 1
            ctl.note('released', self.lock_file)     # no gate: nothing shared happens before the caller's next gate
