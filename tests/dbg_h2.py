import json, sys
from collections import Counter
from tc_verif.core import setup_worker_process
setup_worker_process()
from tc_verif.lab.ref import Ref
from tc_verif.lab.harness import Lab
from tc_verif.lab import history as H
d = json.load(open(sys.argv[1])); w = d['witness']
spec, roots, sessions = w['spec'], w['roots'], w['sessions']
refs = [Ref(spec, r) for r in roots]
orig = H.check_records
def spy(what, o, ch, ref, refs_, latest, model, add, here, counters):
    print(here, {k: (v if not isinstance(v, dict) else v.get('uid')) for k, v in latest.items() if 'data0' in str(k)})
    return orig(what, o, ch, ref, refs_, latest, model, add, here, counters)
H.check_records = spy
c = Counter()
with Lab(spec) as lab:
    disc, tr = H.evaluate_history(lab, spec, roots, refs, sessions[:1], c, {'C18'})
print(disc[:2])
t = refs[0].tasks['g:data']; print(t['read_targets'], t['spec']['inputs'])
