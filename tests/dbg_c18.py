import json, sys, glob
from collections import Counter
from tc_verif.core import setup_worker_process
setup_worker_process()
from tc_verif.lab.ref import Ref
from tc_verif.lab.harness import Lab
f = sys.argv[1]
d = json.load(open(f)); w = d['witness']; print('WHAT', d['what'][:300])
spec, roots, sessions = w['spec'], w['roots'], w['sessions']
import re
m = re.search(r'session (\d+) step (\d+)', d['what']); si, sti = int(m.group(1)), int(m.group(2))
mm = re.search(r'(?:log of |info of |: )(\S+) (?:holds|has run)', d['what']); name = mm.group(1) if mm else d['what'].split('log of ')[1].split(' ')[0]; print('NAME', name)
with Lab(spec) as lab:
    for k, s in enumerate(sessions[:si+1]):
        r = lab.run(s['steps'], spawn=s['spawn'], hashseed=s.get('hashseed'))
        if k == si:
            for st, o in zip(s['steps'][:sti+1], r['steps']):
                runs = [(x['task'], x['phase'], x['uid']) for x in o['runs'] if x['task'] == name or True]
                print(o['step'], {k_: v for k_, v in st.items() if k_ != 'root'}, 'ok' if o['ok'] else (o.get('exc'), o.get('msg')[:100]), runs[:8])
            o = r['steps'][sti]
            print(json.dumps(o.get('log', {}).get(name))[:800])
            import subprocess
            print(subprocess.run(f'find {lab.data_dir} | grep -i {name.split(":")[-1]} | head -20', shell=True, capture_output=True, text=True).stdout)
