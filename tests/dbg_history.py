import json, sys, glob
from collections import Counter
from tc_verif.core import setup_worker_process
setup_worker_process()
from tc_verif.lab.ref import Ref
from tc_verif.lab.harness import Lab
from tc_verif.lab.history import evaluate_history
f = sys.argv[1]
d = json.load(open(f)); w = d['witness']; print('WHAT', d['what'][:400])
spec, roots, sessions = w['spec'], w['roots'], w['sessions']
refs = [Ref(spec, r) for r in roots]
c = Counter()
with Lab(spec) as lab:
    disc, tr = evaluate_history(lab, spec, roots, refs, sessions, c, {'C01','C04','C07','C08','C05','C18'})
    print('trouble', tr)
    for x in disc[:6]: print(x['prop'], x['tag'], x['what'][:500])
import re
m = re.search(r'value (\S+):', d['what'])
if m:
    name = m.group(1)
    for ri, r in enumerate(refs):
        if name in r.tasks:
            t = r.tasks[name]; print('ref', ri, name, t['spec']['data_kind'], t['spec'].get('reads'), t['persisted'], list(t['inputs']), t['explicit'], 'h', t['h'], t['vdigest'])
            print('  spec inputs', t['spec']['inputs'])
for si, s in enumerate(sessions):
    for i, st in enumerate(s['steps']): print(si, i, {k: v for k, v in st.items() if k not in ('root',)})
