import json, sys, glob
from tc_verif.core import setup_worker_process
setup_worker_process()
from tc_verif.lab.ref import Ref
from tc_verif.lab.harness import Lab
d = json.load(open(sys.argv[1])); w = d['witness']; print('WHAT', d['what'][:200])
spec, root = w['spec'], w['root']
import re
name = re.search(r'helper for (\S+) ', d['what']).group(1)
ref = Ref(spec, root)
t = ref.tasks[name]
print(t['spec'])
print('explicit', t['explicit'], 'persisted', t['persisted'])
st = next(s for s in w['steps'] if s.get('task') == name)
print(st)
with Lab(spec) as lab:
    r = lab.run([{'op': 'build', 'chain': 'c', 'root': root}, dict(st)], tracebacks=True)
    o = r['steps'][1]
    print({k: v for k, v in o.items() if k not in ('fs',)})
