import json, sys, glob
from tc_verif.core import setup_worker_process
setup_worker_process()
from tc_verif.lab.ref import Ref
from tc_verif.lab.harness import Lab
d = json.load(open(sys.argv[1])); w = d['witness']; print('WHAT', d['what'][:200])
spec, root = w['spec'], w['root']
ref = Ref(spec, root)
print(json.dumps(root)[:600])
print(list(ref.tasks))
with Lab(spec) as lab:
    r = lab.run([{'op': 'build', 'chain': 'old', 'root': root, 'parameter_mode': False, 'data_dir_name': 'src_data'}, {'op': 'build', 'chain': 'new', 'root': root, 'data_dir_name': 'target'},
                 {'op': 'migrate', 'root': root, 'target_name': 'target', 'data_dir_name': 'src_data', 'dry': True}], tracebacks=True)
    for o in r['steps']:
        if o['op'] == 'build': print(o['ok'], sorted(x['fullname'] for x in o['snapshot']['tasks'].values()) if o['ok'] else o)
        else: print(o.get('tb'))
