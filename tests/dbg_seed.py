import json, sys, random
from tc_verif.core import setup_worker_process
setup_worker_process()
from tc_verif.lab import ref, spec as S
seed = int(sys.argv[1])
rng = random.Random(seed)
sp = S.gen_spec(rng); root = S.gen_root(rng, sp)
print(json.dumps(root, indent=1))
print(json.dumps(sp['files'], indent=1)[:3000])
print(json.dumps(sp['context_files'], indent=1))
r = ref.Ref(sp, root)
print(r.error, r.ctx_global, r.ctx_ns)
