import json, sys, tempfile, shutil
from pathlib import Path
from tc_verif.core import setup_worker_process
setup_worker_process()
from tc_verif.lab import emit, ref, worker

spec = {
 'pkg': 'labp_smoke',
 'modules': [
  {'name': 'base', 'tasks': [
     {'cls': 'RawData', 'data_kind': 'json_dict', 'params': [{'name': 'size', 'dtype': 'int'}, {'name': 'verbose', 'default': False, 'ignore': True}], 'inputs': []},
     {'cls': 'Features', 'group': 'g', 'data_kind': 'numpy', 'params': [{'name': 'dim', 'default': 3, 'drop_default': True, 'access': 'args'}],
      'inputs': [{'form': 'class', 'ref_class': 'RawData', 'ref_class_path': 'labp_smoke.base.RawData', 'access': 'args', 'arg': 'raw_data', 'registry_key': 'raw_data'}]},
  ]},
  {'name': 'model', 'tasks': [
     {'cls': 'TrainTask', 'base': 'ModuleTask', 'data_kind': 'dir', 'params': [{'name': 'obj'}, {'name': 'path', 'dtype': 'Path', 'default': '/x/{A}'}],
      'inputs': [{'form': 'name', 'ref': 'tr::features', 'access': 'registry', 'registry_key': 'tr::features'},
                 {'form': 'name', 'ref': 'missing_thing', 'optional': True, 'default': 7, 'access': 'registry', 'registry_key': 'missing_thing'}]},
  ]},
 ],
 'files': {
   'cfg/data.json': {'parts': {'': {'tasks': ['labp_smoke.base.*'], 'values': {'size': 5, 'dim': 3}}}},
   'cfg/top.yaml': {'parts': {'': {'tasks': ['labp_smoke.model.TrainTask'], 'uses': [{'file': 'cfg/data.json', 'as': 'tr'}],
                                   'values': {'obj': {'class': 'tc_verif.lab.runtime.LabObj', 'kwargs': {'a': ['x{A}', 2]}}}}}},
 },
 'context_files': {},
}
root = {'file': 'cfg/top.yaml', 'context': [{'kind': 'dict', 'data': {'for_namespaces': {'tr': {'size': 9}}}}], 'global_vars': {'kind': 'dict', 'values': {'A': 'aa'}}}
tmp = Path(tempfile.mkdtemp(prefix='lab-'))
paths = emit.emit(spec, tmp)
r = ref.Ref(spec, root)
print('ref error', r.error)
for n, t in r.tasks.items():
    print(n, t['key'], t['rel_path'], t['vdigest'], dict(t['inputs']).keys())
sess = {'lab_root': str(tmp), 'src': paths['src'], 'data_dir': str(tmp / 'data'), 'log': str(tmp / 'log.jsonl'), 'session': 's0', 'tracebacks': True,
        'steps': [{'op': 'build', 'chain': 'c0', 'root': root}, {'op': 'value', 'chain': 'c0', 'task': 'model:train'}, {'op': 'value', 'chain': 'c0', 'task': 'tr::g:features'},
                  {'op': 'inspect', 'chain': 'c0', 'what': 'run_info'}, {'op': 'snapshot', 'chain': 'c0'}]}
res = worker.run_session_forked(sess)
print(res.get('exit'), res.get('harness_error'))
for o in res['steps']:
    if not o['ok']: print(o)
    elif o['op'] == 'build':
        for n, d in o['snapshot']['tasks'].items(): print(n, d['key'], d['rel_path'], d['params'], d['inputs'])
    elif o['op'] == 'value': print('value', o['vdigest'], [ (x['task'], x['phase']) for x in o['runs']], o['fs'][:6])
    elif o['op'] == 'inspect': print(json.dumps(o['run_info']['model:train'], default=str)[:600])
res2 = worker.run_session_spawned(dict(sess, session='s1'), hashseed=7)
print('spawned', res2.get('exit'), [ (o['op'], o['ok'], len(o['runs'])) for o in res2['steps']])
shutil.rmtree(tmp)
