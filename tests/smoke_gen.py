import json, sys, tempfile, shutil, random, collections
from pathlib import Path
from tc_verif.core import setup_worker_process
setup_worker_process()
from tc_verif.lab import emit, ref, worker, spec as S

n = int(sys.argv[1]) if len(sys.argv) > 1 else 50
stats = collections.Counter()
for seed in range(n):
    rng = random.Random(seed)
    sp = S.gen_spec(rng)
    root = S.gen_root(rng, sp)
    r = ref.Ref(sp, root)
    tmp = Path(tempfile.mkdtemp(prefix='lab-'))
    try:
        paths = emit.emit(sp, tmp)
        sess = {'lab_root': str(tmp), 'src': paths['src'], 'data_dir': str(tmp / 'data'), 'log': str(tmp / 'log.jsonl'), 'session': 's0', 'tracebacks': True,
                'steps': [{'op': 'build', 'chain': 'c0', 'root': root}]}
        res = worker.run_session_forked(sess)
        if res.get('harness_error') or res.get('timeout'):
            print(seed, 'HARNESS', res); stats['harness'] += 1; continue
        o = res['steps'][0]
        if r.error is not None:
            stats['ref_error_' + r.error.kind] += 1
            if o['ok']:
                print(seed, 'REF expects error', r.error.kind, r.error, 'but chain built'); stats['mismatch'] += 1
            continue
        if not o['ok']:
            print(seed, 'BUILD FAILED', o['exc'], o['msg'][:300]); stats['mismatch'] += 1
            if '-v' in sys.argv: print(o['tb'])
            continue
        snap = o['snapshot']['tasks']
        if set(snap) != set(r.tasks):
            print(seed, 'NAMES differ', sorted(set(snap) ^ set(r.tasks))); stats['mismatch'] += 1; continue
        bad = False
        for n_, t in r.tasks.items():
            d = snap[n_]
            if d.get('key') != t['key'] or d.get('rel_path') != t['rel_path']:
                print(seed, 'KEY/PATH differ', n_, d.get('key'), t['key'], d.get('rel_path'), t['rel_path'], d.get('persist_repr'), d.get('key_error')); bad = True
            if d['params'] != json.loads(json.dumps(t['received'])):
                print(seed, 'PARAMS differ', n_, d['params'], t['received']); bad = True
            obs_in = {snap[v[1]]['id'] if v[0] == 'task' and v[1] in snap else repr(v) for v in d['inputs'].values() if v[0] == 'task'}
            exp_in = {snap[m]['id'] for m in t['inputs']}
            if obs_in != exp_in:
                print(seed, 'INPUTS differ', n_, d['inputs'], list(t['inputs'])); bad = True
        stats['mismatch' if bad else 'agree'] += 1
        stats['tasks'] += len(snap)
    finally:
        shutil.rmtree(tmp, ignore_errors=True)
print(dict(stats))
